------------------------------- MODULE MCstack -------------------------------
(***************************************************************************)
(* Design-level sanity of Stack.tla over its whole domain: Expected is      *)
(* total, read-only levels never change (there is no field for it: by       *)
(* construction), and the documented laws hold:                             *)
(*   FirstCopyWins, AcceptChangesNothing, PromoteCopies, ReplaceStores,     *)
(*   UnsupportedWithoutWriter, CheckerSeesAll.                              *)
(***************************************************************************)
EXTENDS Stack

VARIABLE wd
Contents == {"none", "A", "B"}
RSeqs == UNION {[1..n -> Contents] : n \in 0..2}
Init == /\ wd \in [writer : {"none", "plain", "sharded"}, w : Contents, rs : RSeqs, checker : {"none", "eq", "panic", "log"},
                    op : {"get", "touch", "ensure", "gou", "set", "put", "set_tf", "put_tf"},
                    judge : {"accept", "promote", "replace"}, pop : {"A", "B", "notfound", "error"}]
        /\ (wd.writer = "none" => wd.w = "none")
Next == UNCHANGED wd

ex == Expected(wd)
Copies == (IF WHit(wd) THEN <<wd.w>> ELSE <<>>) \o SelectSeq(wd.rs, LAMBDA c : c # "none")

FirstCopyWins == (wd.op = "get" /\ ex.out = "ok") => ex.res = (IF Copies = <<>> THEN "none" ELSE Copies[1])
AcceptChangesNothing == (wd.op = "gou" /\ wd.judge = "accept" /\ Copies # <<>>) => ex.wpost = wd.w
PromoteCopies == (wd.op \in {"ensure", "gou"} /\ Judge(wd) = "promote" /\ ex.out = "ok" /\ HasW(wd) /\ Copies # <<>>) => ex.wpost = Copies[1] /\ ex.res = Copies[1]
ReplaceStores == (wd.op = "gou" /\ wd.judge = "replace" /\ ex.out = "ok") => ex.res = wd.pop /\ (HasW(wd) => ex.wpost = wd.pop)
MissStores == (wd.op \in {"ensure", "gou"} /\ Copies = <<>> /\ ex.out = "ok") => ex.res = wd.pop /\ (HasW(wd) => ex.wpost = wd.pop)
UnsupportedWithoutWriter == (wd.op \in {"set", "put", "set_tf", "put_tf"} /\ ~HasW(wd)) => ex.out = "err" /\ ex.unsupported
HitKind == (ex.hit = "primary" => WHit(wd)) /\ (ex.hit = "secondary" => ~WHit(wd) /\ RLevels(wd) # {})
CheckerSeesAll == (wd.op = "get" /\ wd.checker \in {"eq", "log"}) =>
                      (ex.out = "ok" <=> \A i, j \in 1..Len(Copies) : Copies[i] = Copies[j])
PutNeverOverwrites == (wd.op \in {"put", "put_tf"} /\ HasW(wd) /\ wd.w # "none") => ex.wpost = wd.w
=============================================================================
