----------------------------- MODULE TraceKismet -----------------------------
(***************************************************************************)
(* Conformance of the real library to the protocol model: every recorded    *)
(* operation of a plain cache (get / touch / set / put, with the            *)
(* application prologue and epilogue of the actor) must be a path through   *)
(* Kismet.tla's control flow -- the same NextCallAt / AfterAt definitions   *)
(* that the exhaustive configurations explore -- given the results the      *)
(* calls really had.  (That those results are what a POSIX filesystem gives *)
(* is TraceProps' business: PosixFS!Pred / Eff against the snapshots.)      *)
(*                                                                         *)
(* A mismatch is MODEL-DRIFT, not a property violation: it says the         *)
(* design-level result does not transfer to this build of the library.      *)
(* The trace specification is deterministic: the only unlogged choice, the  *)
(* trigger, is inferred from the next call (directory open => it fired).    *)
(***************************************************************************)
EXTENDS Kismet, Json, IOUtils

Rec == ndJsonDeserialize(IOEnv.TRACE)
NoProg == <<>>
NoProcs == {}
NoDebris == {}
NoKeyShards == <<>>
NoPreRO == {}

VARIABLES l, rn, skip, drift, nops, cov

tvars == <<l, rn, skip, drift, nops, cov, pc, loc, fs, clock, nino, aux, last>>

\* (the stacked model has a plain write cache: runs whose write cache is sharded are not attempted)
EndsWith(str, t) == Len(str) >= Len(t) /\ SubSeq(str, Len(str) - Len(t) + 1, Len(str)) = t
\* (stacked writes are followed when the value is staged in the driver's SRC directory, as the model assumes)
StagedInSrc(e) == e.api \in {"set", "put", "set_tf", "put_tf"} /\ Has(e, "srcdir") /\ EndsWith(e.srcdir, "/SRC")
\* (ensure / get_or_update are followed when populate writes the value and no consistency checker is installed)
PlainEnsure(e) == e.api \in {"ensure", "gou"} /\ rn.checker = "none" /\ (Has(e, "populate") => e.populate = "value") /\ ~Has(e, "popchop")
\* (hk: the kind of handle the operation goes through; a participant that plants a read-only level through a plain handle is not followed)
\* (runs marked "unmodelled" use an environment the model has no action for -- short transfers -- and are not followed)
Modeled(e) == ~e.world /\ ~rn.unmodelled /\ (Has(e, "hk") => e.hk = FrontKind) /\
              (IF FrontKind = "stack" THEN (e.api \in {"get", "touch"} \/ PlainEnsure(e) \/ StagedInSrc(e)) /\ ~rn.wsharded
                            ELSE e.api \in {"get", "touch", "set", "put"})
\* an injected failure inside std::io::copy's private probing (fstat of source / destination): the fallback it takes is the
\* standard library's business, the rest of that operation is not followed
UnmodelledFault(e) == Has(e, "inj") /\ e.p \in DOMAIN pc /\ pc[e.p] \in {"ef1", "ef2", "ms2"}

\* Does recorded call e have the shape of the model's call c0?
SamePath(a, b, lbl) == a.d = b.d /\ (a.n = b.n \/ ((IsTempDir(b.d) \/ b.d = SrcDir) /\ lbl \in {"a3", "ec"}))
FlagsOK(e, c0) == Has(e, "flags") /\ e.flags = c0.flags
Matches(e, c0, lbl) ==
    /\ e.call = c0.call
    /\ e.ph = c0.ph
    /\ Has(c0, "path") => Has(e, "path") /\ SamePath(e.path, c0.path, lbl)
    /\ Has(c0, "path2") => Has(e, "path2") /\ e.path2 = c0.path2
    /\ Has(c0, "flags") => FlagsOK(e, c0)
    /\ Has(c0, "via") => Has(e, "via") /\ e.via = "fd"
    /\ (Has(c0, "ino") /\ c0.ino # "") => Has(e, "ino") /\ e.ino = c0.ino
    /\ Has(c0, "dir") => Has(e, "fdpath") /\ DirId(e.fdpath) = c0.dir
    /\ (Has(c0, "cmode") /\ e.call # "open") => Has(e, "cmode") /\ e.cmode = c0.cmode
    /\ (Has(c0, "cmode") /\ e.call = "open") => Has(e, "cmode") /\ e.cmode = c0.cmode
    /\ Has(c0, "atk") => /\ Has(e, "atk") /\ e.atk = c0.atk /\ e.mtk = c0.mtk
                         \* insertion / reprieve stamp: atime = mtime - 120 s, same nanoseconds
                         /\ (c0.mtk = "set" => e.at = <<e.mt[1] - Delta, e.mt[2]>>)
                         \* lookup re-touch: atime := the mtime it just read
                         /\ (lbl = "g3" => e.at = c0.at)
    /\ Has(c0, "nofollow") => Has(e, "nofollow")

\* unlogged local decisions (did the trigger fire? is a temp file older than the limit? how do the in-memory load
\* estimates order the key's two shards? is the written shard's estimate far over capacity?) are inferred from the call
\* that follows: the alternatives issue distinguishable calls
ShardOrders == {<<ShardDir(0), ShardDir(1)>>, <<ShardDir(1), ShardDir(0)>>}
BindOrder(lo, o) == [lo EXCEPT !.h1 = o[1], !.h2 = o[2], !.b = o[1], !.td = TDof(o[1]), !.bound = TRUE]
BaseAlts(p) == IF loc[p].bound THEN {loc[p]} ELSE {BindOrder(loc[p], o) : o \in ShardOrders}
AltsOf(lbl, lo) ==
    IF lbl = "s1" THEN {DecideFire(lo, TRUE), DecideFire(lo, FALSE)}
    ELSE IF lbl = "s0" THEN {DecideTempClean(lo, TRUE), DecideTempClean(lo, FALSE)}
    ELSE IF lbl = "y1" THEN {DecideOther(lo)}
    ELSE IF lbl = "z1" THEN {DecideForced(lo, TRUE), DecideForced(lo, FALSE)}
    ELSE IF lbl = "c4d" THEN {DecideOld(lo, TRUE), DecideOld(lo, FALSE)}
    ELSE IF lbl = "pub" THEN {[pc |-> "p1", loc |-> lo]}
    ELSE {[pc |-> lbl, loc |-> lo]}
Alts(p) == UNION {AltsOf(pc[p], lo) : lo \in BaseAlts(p)}

TInit ==
    /\ l = 1 /\ rn = [job |-> "", run |-> 0, wsharded |-> FALSE, unmodelled |-> FALSE, checker |-> "none"] /\ skip = <<>> /\ drift = <<>> /\ nops = 0 /\ cov = {}
    /\ pc = <<>> /\ loc = <<>>
    /\ fs = EmptyFS /\ clock = 0 /\ nino = 0 /\ aux = <<>> /\ last = <<>>

Drifted == drift # <<>>

\* the judge (and populate, of the file it replaces) may read the hit it is shown: an implementation step without a
\* counterpart in the model (what the callbacks read is the application's business)
Inspects(e, p) == /\ loc[p].op.api = "gou" /\ e.ph = "cb" /\ e.call \in {"read", "lseek", "stat"}
                  /\ Has(e, "via") /\ e.via = "fd" /\ Has(e, "ino") /\ loc[p].hit # "" /\ e.ino = loc[p].hit
SysEvent(e) ==
    LET p == e.p IN
    IF p \notin DOMAIN pc \/ Get(skip, p, TRUE) THEN UNCHANGED <<pc, loc, drift, nops>>
    ELSE IF Inspects(e, p) THEN UNCHANGED <<pc, loc, drift, nops>>
    ELSE IF pc[p] \in {"idle", "ret"} THEN
        \* only the application's own inspection of a returned handle may happen here
        IF e.ph = "app" THEN UNCHANGED <<pc, loc, drift, nops>>
        ELSE /\ drift' = [seq |-> e.seq, pcl |-> pc[p], why |-> "call outside any modelled step", got |-> e.call]
             /\ UNCHANGED <<pc, loc, nops>>
    ELSE LET cands == {a \in Alts(p) : a.pc \in SysLabels /\ Matches(e, NextCallL(p, a.loc, a.pc), a.pc)}
             lbl == pc[p]
             c0 == [call |-> "?"]
         IN IF cands # {} THEN
                LET a == CHOOSE x \in cands : TRUE
                    nx == AfterL(p, a.loc, a.pc, e) IN
                /\ pc' = [pc EXCEPT ![p] = nx.pc]
                /\ loc' = [loc EXCEPT ![p] = [nx.loc EXCEPT !.rr = IF nx.ret # <<>> THEN nx.ret[1] ELSE <<>>]]
                /\ UNCHANGED <<drift, nops>>
            ELSE /\ drift' = [seq |-> e.seq, pcl |-> lbl, why |-> "unexpected call", got |-> e.call,
                              expected |-> c0.call]
                 /\ UNCHANGED <<pc, loc, nops>>

RetEvent(e) ==
    LET p == e.p IN
    IF p \notin DOMAIN pc \/ Get(skip, p, TRUE) THEN UNCHANGED <<pc, loc, drift, nops>>
    ELSE IF (pc[p] = "ret" /\ loc[p].rr.ok = e.ok /\ (e.ok => loc[p].rr.res = e.res)) \/ (pc[p] = "fail" /\ ~e.ok) THEN
        /\ pc' = [pc EXCEPT ![p] = "idle"] /\ nops' = nops + 1 /\ UNCHANGED <<loc, drift>>
    ELSE /\ drift' = [seq |-> e.seq, pcl |-> pc[p], why |-> "return does not match the model", got |-> e.res]
         /\ UNCHANGED <<pc, loc, nops>>

CallEvent(e) ==
    LET p == e.p IN
    IF Modeled(e) /\ rn.front = FrontKind THEN
        /\ skip' = Put(skip, p, FALSE)
        /\ pc' = Put(pc, p, IF e.api \in {"get", "ensure", "gou"} THEN "g1" ELSE IF e.api = "touch" THEN "t1"
                             ELSE IF FrontKind = "stack" THEN "a3" ELSE IF FrontKind = "plain" THEN "a1" ELSE "s0")
        /\ loc' = Put(loc, p, [IdleLoc EXCEPT !.opi = e.opi, !.cap = rn.cap, !.bound = (FrontKind # "sharded"), !.h1 = Root,
                                 !.h2 = IF FrontKind = "stack" /\ rn.hasro THEN RORoot ELSE Root, !.est = [bd \in BaseDirs |-> 0],
                                 !.td = IF FrontKind = "stack" /\ e.api \in {"set", "put", "set_tf", "put_tf"} THEN SrcDir ELSE TDof(Root),
                                 !.op = [api |-> e.api, key |-> e.key, val |-> IF Has(e, "val") THEN e.val ELSE "",
                                         chunks |-> IF Has(e, "chunks") THEN e.chunks ELSE 1,
                                         judge |-> IF Has(e, "judge") THEN e.judge ELSE "accept"]])
    ELSE /\ skip' = Put(skip, p, TRUE) /\ UNCHANGED <<pc, loc>>

\* the (label, call, result) edge of the model's control flow that a recorded call took
EdgesOf(e) ==
    IF e.e = "sys" /\ ~Drifted /\ e.p \in DOMAIN pc /\ ~Get(skip, e.p, TRUE) /\ pc[e.p] \notin {"idle", "ret"} THEN
        LET cands == {a \in Alts(e.p) : a.pc \in SysLabels /\ Matches(e, NextCallL(e.p, a.loc, a.pc), a.pc)} IN
        IF cands # {} THEN {<<(CHOOSE a \in cands : TRUE).pc, e.call, e.res>>} ELSE {}
    ELSE {}

TNext ==
    /\ l <= Len(Rec)
    /\ l' = l + 1
    /\ UNCHANGED <<fs, clock, nino, aux, last>>
    /\ cov' = cov \cup EdgesOf(Rec[l])
    /\ (l = Len(Rec) => PrintT(<<"COVER", ToJson(cov \cup EdgesOf(Rec[l]))>>))
    /\ LET e == Rec[l] IN
       IF e.e = "reset" THEN
            /\ rn' = [job |-> e.job, run |-> e.run,
                       front |-> IF Has(e, "cfg") /\ Has(e.cfg, "front") THEN e.cfg.front ELSE "?",
                       hasro |-> Has(e, "cfg") /\ Has(e.cfg, "roots") /\ \E i \in 1..Len(e.cfg.roots) : e.cfg.roots[i].role = "ro",
                       checker |-> IF Has(e, "cfg") /\ Has(e.cfg, "checker") THEN e.cfg.checker ELSE "none",
                       unmodelled |-> Has(e, "cfg") /\ Has(e.cfg, "unmodelled") /\ e.cfg.unmodelled,
                       wsharded |-> Has(e, "cfg") /\ Has(e.cfg, "roots") /\ \E i \in 1..Len(e.cfg.roots) : e.cfg.roots[i].role = "w" /\ e.cfg.roots[i].kind = "sharded",
                       cap |-> IF Has(e, "cfg") /\ Has(e.cfg, "shardcap") /\ FrontKind = "sharded" THEN e.cfg.shardcap
                               ELSE IF Has(e, "cfg") /\ Has(e.cfg, "cap") THEN e.cfg.cap ELSE 1000000]
            /\ skip' = <<>> /\ drift' = <<>> /\ pc' = <<>> /\ loc' = <<>> /\ nops' = 0
       ELSE IF e.e = "endrun" THEN
            /\ PrintT(<<"CONF", ToJson([job |-> rn.job, run |-> rn.run, ops |-> nops,
                                        drift |-> IF Drifted THEN <<drift>> ELSE <<>>])>>)
            /\ UNCHANGED <<rn, skip, drift, pc, loc, nops>>
       ELSE IF Drifted THEN UNCHANGED <<rn, skip, drift, pc, loc, nops>>
       ELSE IF e.e = "call" THEN CallEvent(e) /\ UNCHANGED <<rn, drift, nops>>
       ELSE IF e.e = "sys" /\ UnmodelledFault(e) THEN skip' = Put(skip, e.p, TRUE) /\ UNCHANGED <<rn, drift, pc, loc, nops>>
       ELSE IF e.e = "sys" THEN SysEvent(e) /\ UNCHANGED <<rn, skip>>
       ELSE IF e.e = "ret" THEN RetEvent(e) /\ UNCHANGED <<rn, skip>>
       ELSE IF e.e \in {"crash", "gone", "frozen"} THEN
            /\ skip' = Put(skip, e.p, TRUE) /\ UNCHANGED <<rn, drift, pc, loc, nops>>
       ELSE UNCHANGED <<rn, skip, drift, pc, loc, nops>>

TSpec == TInit /\ [][TNext]_tvars

Accepted ==
    /\ PrintT(<<"TRACE-END", TLCGet("stats").diameter - 1, Len(Rec)>>)
    /\ TLCGet("stats").diameter - 1 = Len(Rec)
=============================================================================
