\* MODULE Atime
SPECIFICATION Spec
CONSTANTS
  Policy = "strict"
  Gran = 3
  Delta = 4
  MaxT = 14
  ReTouch = TRUE
INVARIANTS MarkAfterUse FreshAfterInsert NoFalseMark
PROPERTIES UseKeepsRank
CHECK_DEADLOCK FALSE
