\* MODULE MCshardmap
INIT Init
NEXT Next
INVARIANTS RangeOK NamesOK Pinned
CHECK_DEADLOCK FALSE
