---- MODULE MCcover4 ----
(* Edge-coverage configuration: stacked cache (plain write cache of capacity 1 over one read-only level), maintenance   *)
(* nondeterministic: ensure miss / hit / promotion, get_or_update with the judges Accept, Promote and Replace, values    *)
(* staged outside the cache (set, put_temp_file).                                                                      *)
EXTENDS Kismet, Json
ASSUME CoverInit
CoverPost == PrintT(<<"COVER", ToJson(TLCGet(7))>>)
MCProcs == {1, 2}
MCProg == (1 :> <<[api |-> "ensure", key |-> "k9", val |-> "a", chunks |-> 2], [api |-> "gou", key |-> "k", val |-> "b", chunks |-> 1, judge |-> "replace"],
                  [api |-> "gou", key |-> "k2", val |-> "c", chunks |-> 1, judge |-> "promote"], [api |-> "touch", key |-> "k2", val |-> "", chunks |-> 0]>>) @@
          (2 :> <<[api |-> "set", key |-> "k", val |-> "d", chunks |-> 1], [api |-> "put_tf", key |-> "k9", val |-> "e", chunks |-> 1],
                  [api |-> "gou", key |-> "k2", val |-> "f", chunks |-> 1, judge |-> "accept"], [api |-> "gou", key |-> "k2", val |-> "g", chunks |-> 1, judge |-> "replace"],
                  [api |-> "get", key |-> "k9", val |-> "", chunks |-> 0]>>)
MCPre == {[key |-> "k", val |-> "old"]}
MCPreRO == {[key |-> "k2", val |-> "ro"]}
NoDebris == {}
NoKeyShards == <<>>
====
