\* MODULE MCstack5
SPECIFICATION Spec
CONSTANTS
  Procs <- MCProcs
  Prog <- MCProg
  Cap = 100
  Maint = "never"
  DirsExist = TRUE
  Pre <- MCPre
  WriteFallback = FALSE
  CrashBudget = 0
  AdvBudget = 0
  Debris <- NoDebris
  PreRO <- MCPreRO
  FrontKind = "stack"
  KeyShards <- NoKeyShards
  FaultBudget = 0
VIEW View
INVARIANTS InvDirValid InvDebris InvHandle InvNoErr InvReplaceOwn InvFdBound InvNoResidue
PROPERTIES StepImmutable StepReadOnlyFirst StepRemoval StepDurableFirst StepROUntouched StepReplaceStores
CHECK_DEADLOCK FALSE
