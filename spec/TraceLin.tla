------------------------------- MODULE TraceLin -------------------------------
(***************************************************************************)
(* C04: every recorded history of concurrent set/put/get/touch/ensure on    *)
(* one key of a plain cache directory (eviction out of play) must be        *)
(* linearizable against Register.tla.  The trace is consumed record by      *)
(* record (call / ret / obs); at the end of each run TLC searches for a     *)
(* linearization (Register!Linearizable).                                   *)
(***************************************************************************)
EXTENDS Register, Json, IOUtils

Rec == ndJsonDeserialize(IOEnv.TRACE)
Has(r, f) == f \in DOMAIN r

VARIABLES l, st

Fresh(e) == [job |-> e.job, run |-> e.run, key |-> e.cfg.key, open |-> <<>>, ops |-> {}, n |-> 0, lastp |-> <<>>]
Put(f, k, v) == (k :> v) @@ f

Step(s, e) ==
    IF e.e = "call" /\ ~e.world /\ Has(e, "key") /\ e.key = s.key /\ e.api \in {"set", "put", "get", "touch", "ensure"} THEN
        [s EXCEPT !.n = @ + 1,
                  !.open = Put(@, e.p, [id |-> s.n + 1, call |-> e.seq, ret |-> 0, api |-> e.api,
                                         val |-> IF Has(e, "val") THEN e.val ELSE "", res |-> "?", stage |-> 1, faulted |-> FALSE])]
    \* an injected failure inside an open operation: that operation (only) may report an error
    ELSE IF e.e = "sys" /\ Has(e, "inj") /\ e.p \in DOMAIN s.open /\ s.open[e.p].ret = 0 THEN
        [s EXCEPT !.open = Put(@, e.p, [s.open[e.p] EXCEPT !.faulted = TRUE])]
    ELSE IF e.e = "ret" /\ e.p \in DOMAIN s.open /\ s.open[e.p].ret = 0 /\ e.api = s.open[e.p].api THEN
        LET o == s.open[e.p]
            res == IF ~e.ok THEN "error" ELSE IF e.res \in {"none", "true", "false", "unit"} THEN e.res ELSE "handle"
            o2 == [o EXCEPT !.ret = e.seq, !.res = res]
        IN IF res = "handle" THEN [s EXCEPT !.open = Put(@, e.p, o2)]      \* the value is in the obs record that follows
           ELSE [s EXCEPT !.open = Put(@, e.p, [o2 EXCEPT !.ret = e.seq]), !.ops = @ \cup {o2}]
    ELSE IF e.e = "obs" /\ e.p \in DOMAIN s.open /\ s.open[e.p].res = "handle" /\ Has(e, "handle") THEN
        LET o == s.open[e.p]
            o2 == [o EXCEPT !.res = IF Has(e.handle.c, "val") THEN e.handle.c.val ELSE "garbage"]
        IN [s EXCEPT !.ops = @ \cup {o2}, !.open = Put(@, e.p, o2)]
    ELSE s

\* set/put return "unit": nothing to compare
Norm(ops) == {IF o.api \in {"set", "put"} /\ o.res # "error" THEN [o EXCEPT !.res = "unit"] ELSE o : o \in ops}

Init == l = 1 /\ st = [job |-> "", run |-> 0, key |-> "", open |-> <<>>, ops |-> {}, n |-> 0, lastp |-> <<>>]
Next ==
    /\ l <= Len(Rec)
    /\ l' = l + 1
    /\ LET e == Rec[l] IN
       IF e.e = "reset" THEN st' = Fresh(e)
       ELSE IF e.e = "endrun" THEN
            LET ops == Norm(st.ops)
                bad == {o \in ops : o.res = "error" /\ ~o.faulted}
                ok == bad = {} /\ Linearizable(ops, "none") /\ EnsureAgree(ops, "none")
            IN /\ (~ok => PrintT(<<"VERDICT", ToJson([job |-> st.job, run |-> st.run,
                                  viol |-> {<<0, IF bad # {} THEN "OpError" ELSE "Linearizable">>}, fsmis |-> {}, ops |-> ops])>>))
               /\ PrintT(<<"CONF", ToJson([job |-> st.job, run |-> st.run, ops |-> Cardinality(ops), drift |-> <<>>])>>)
               /\ UNCHANGED st
       ELSE st' = Step(st, e)
Spec == Init /\ [][Next]_<<l, st>>

Accepted ==
    /\ PrintT(<<"TRACE-END", TLCGet("stats").diameter - 1, Len(Rec)>>)
    /\ TLCGet("stats").diameter - 1 = Len(Rec)
=============================================================================
