\* MODULE MCadv
SPECIFICATION Spec
CONSTANTS
  Procs <- MCProcs
  Prog <- MCProg
  Cap = 1
  Maint = "always"
  DirsExist = FALSE
  Pre <- MCPre
  WriteFallback = FALSE
  CrashBudget = 0
  AdvBudget = 1
  Debris <- NoDebris
  PreRO <- NoPreRO
  FrontKind = "plain"
  KeyShards <- NoKeyShards
  FaultBudget = 0
VIEW View
INVARIANTS InvDirValid InvDebris InvHandle InvNoErr InvFdBound InvNoResidue
PROPERTIES StepImmutable StepReadOnlyFirst StepRemoval StepRegister StepGetLin
CHECK_DEADLOCK FALSE
