---- MODULE MCstack2 ----
(* Stacked cache (plain write cache W + read-only cache R1, auto_sync): two participants; one ensures a key that only *)
(* the read-only cache holds (promotion), the other ensures a missing key and looks both up.                         *)
EXTENDS Kismet
MCProcs == {1, 2}
MCProg == (1 :> <<[api |-> "ensure", key |-> "k", val |-> "a", chunks |-> 1]>>) @@
          (2 :> <<[api |-> "ensure", key |-> "k", val |-> "b", chunks |-> 2], [api |-> "get", key |-> "k", val |-> "", chunks |-> 0]>>)
MCPre == {}
MCPreRO == {[key |-> "k", val |-> "ro"]}
NoDebris == {}
NoKeyShards == <<>>
====
