------------------------------- MODULE TraceSC -------------------------------
(***************************************************************************)
(* C08: outcomes of the real planner (second_chance::Update::new, called by *)
(* kv-actor --pure on identity-tagged entries) judged by SecondChance!PlanOK *)
(* plus the structural requirements of the property.  One record per input; *)
(* every capacity of the record is judged.                                  *)
(***************************************************************************)
EXTENDS SecondChance, Json, IOUtils, Integers

Rec == ndJsonDeserialize(IOEnv.TRACE)

VARIABLES l, bad, njudged

Ents(r) == [i \in 1..Len(r.ents) |-> [id |-> i, rank |-> <<r.ents[i][1], 0>>, acc |-> r.ents[i][2] = 1]]
CapOf(o, n) == IF o.cap < 0 THEN n + 1 ELSE o.cap    \* usize::MAX is recorded as -1

OutOK(r, o) ==
    LET es == Ents(r) n == Len(es) cap == CapOf(o, n) IN
    /\ ~o.panic
    /\ PlanOK(es, cap, o.evict, o.back)
    /\ (n <= cap => o.evict = <<>> /\ o.back = <<>>)

Init == l = 1 /\ bad = {} /\ njudged = 0
Next ==
    /\ l <= Len(Rec)
    /\ l' = l + 1
    /\ LET r == Rec[l]
           failing == {k \in 1..Len(r.outs) : ~OutOK(r, r.outs[k])}
       IN /\ bad' = bad \cup {<<r.id, k>> : k \in failing}
          /\ njudged' = njudged + Len(r.outs)
          /\ (failing # {} => PrintT(<<"VERDICT", ToJson([job |-> "plan", run |-> r.id, viol |-> {<<k, "PlanOK">> : k \in failing}, fsmis |-> {}])>>))
          /\ (l = Len(Rec) => PrintT(<<"STATS", ToJson([judged |-> njudged + Len(r.outs)])>>))
Spec == Init /\ [][Next]_<<l, bad, njudged>>

Accepted ==
    /\ PrintT(<<"TRACE-END", TLCGet("stats").diameter - 1, Len(Rec)>>)
    /\ TLCGet("stats").diameter - 1 = Len(Rec)
=============================================================================
