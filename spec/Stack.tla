-------------------------------- MODULE Stack --------------------------------
(***************************************************************************)
(* Sequential semantics of the stacked cache (kismet_cache::Cache) and of   *)
(* the read-only stack (ReadOnlyCache): lookup order, hit classification,   *)
(* judge actions, populate outcomes, consistency checker (C13, C14).        *)
(*                                                                         *)
(* A world wd is a record                                                   *)
(*   writer   "none" | "plain" | "sharded"     kind of the write cache      *)
(*   w        "none" | "A" | "B"               what it holds for the key    *)
(*   rs       sequence of "none" | "A" | "B"   the read-only levels, in     *)
(*                                             registration order           *)
(*   checker  "none" | "eq" | "panic" | "log"                               *)
(*   op       "get" | "touch" | "ensure" | "gou" | "set" | "put" |          *)
(*            "set_tf" | "put_tf"                                           *)
(*   judge    "accept" | "promote" | "replace"   (gou; ensure = promote)    *)
(*   pop      "A" | "B" | "notfound" | "error"   populate outcome / value   *)
(*                                             written by set/put           *)
(* Expected(wd) is what a user must observe:                                *)
(*   out   "ok" | "err" | "panic"                                           *)
(*   res   returned value ("A"/"B"), "none", "true", "false", "unit"        *)
(*   hit   what the judge is shown: "primary" | "secondary" | "none"        *)
(*   seen  the value shown to the judge ("" if none)                        *)
(*   wpost what the write cache holds for the key afterwards                *)
(*   cmp   the copies (level numbers; 0 = write cache, i = i-th read-only   *)
(*         level, 99 = the freshly populated value) that a configured       *)
(*         checker must have compared (connected) when the call succeeds    *)
(*   unsupported  the error must be ErrorKind::Unsupported                  *)
(***************************************************************************)
EXTENDS Naturals, Sequences, FiniteSets, TLC

HasW(wd) == wd.writer # "none"
WHit(wd) == HasW(wd) /\ wd.w # "none"
RLevels(wd) == {i \in 1..Len(wd.rs) : wd.rs[i] # "none"}
FirstR(wd) == CHOOSE i \in RLevels(wd) : \A j \in RLevels(wd) : i <= j
Checked(wd) == wd.checker # "none"
RSame(wd) == \A i, j \in RLevels(wd) : wd.rs[i] = wd.rs[j]
AllSame(wd) == RSame(wd) /\ (WHit(wd) => \A i \in RLevels(wd) : wd.rs[i] = wd.w)
FailOut(wd) == IF wd.checker = "panic" THEN "panic" ELSE "err"
Judge(wd) == IF wd.op = "ensure" THEN "promote" ELSE wd.judge
PopIsValue(wd) == wd.pop \in {"A", "B"}

Exp(out, res, hit, seen, wpost, cmp) ==
    [out |-> out, res |-> res, hit |-> hit, seen |-> seen, wpost |-> wpost, cmp |-> cmp, unsupported |-> FALSE]

\* copies a checker sees for a plain lookup
LookupCmp(wd) == IF ~Checked(wd) THEN {}
                 ELSE IF WHit(wd) THEN (IF RLevels(wd) = {} THEN {} ELSE {0} \cup RLevels(wd))
                 ELSE IF Cardinality(RLevels(wd)) >= 2 THEN RLevels(wd) ELSE {}

ExpGet(wd) ==
    IF WHit(wd) THEN
        IF Checked(wd) /\ ~AllSame(wd) THEN Exp(FailOut(wd), "", "none", "", wd.w, {})
        ELSE Exp("ok", wd.w, "none", "", wd.w, LookupCmp(wd))
    ELSE IF RLevels(wd) = {} THEN Exp("ok", "none", "none", "", wd.w, {})
    ELSE IF Checked(wd) /\ ~RSame(wd) THEN Exp(FailOut(wd), "", "none", "", wd.w, {})
    ELSE Exp("ok", wd.rs[FirstR(wd)], "none", "", wd.w, LookupCmp(wd))

ExpTouch(wd) ==
    Exp("ok", IF WHit(wd) \/ RLevels(wd) # {} THEN "true" ELSE "false", "none", "", wd.w, {})

\* an accepted hit `v` found at `lvl`, possibly compared with a freshly populated value
AcceptedHit(wd, v, lvl, hitkind, wpostIfOk) ==
    IF ~Checked(wd) THEN Exp("ok", v, hitkind, v, wpostIfOk, {})
    ELSE IF wd.pop = "notfound" THEN Exp("ok", v, hitkind, v, wpostIfOk, LookupCmp(wd))
    ELSE IF wd.pop = "error" THEN Exp("err", "", hitkind, v, wd.w, {})
    ELSE IF wd.pop # v THEN Exp(FailOut(wd), "", hitkind, v, wd.w, {})
    ELSE Exp("ok", v, hitkind, v, wpostIfOk, LookupCmp(wd) \cup {lvl, 99})

ExpGou(wd) ==
    LET j == Judge(wd) IN
    IF WHit(wd) THEN
        IF Checked(wd) /\ ~AllSame(wd) THEN Exp(FailOut(wd), "", "none", "", wd.w, {})
        ELSE IF j \in {"accept", "promote"} THEN AcceptedHit(wd, wd.w, 0, "primary", wd.w)
        ELSE IF PopIsValue(wd) THEN Exp("ok", wd.pop, "primary", wd.w, wd.pop, LookupCmp(wd))
        ELSE Exp("err", "", "primary", wd.w, wd.w, {})
    ELSE IF RLevels(wd) # {} THEN
        LET v == wd.rs[FirstR(wd)] IN
        IF Checked(wd) /\ ~RSame(wd) THEN Exp(FailOut(wd), "", "none", "", wd.w, {})
        ELSE IF j = "accept" THEN AcceptedHit(wd, v, FirstR(wd), "secondary", wd.w)
        ELSE IF j = "promote" THEN AcceptedHit(wd, v, FirstR(wd), "secondary", IF HasW(wd) THEN v ELSE wd.w)
        ELSE IF PopIsValue(wd) THEN Exp("ok", wd.pop, "secondary", v, IF HasW(wd) THEN wd.pop ELSE wd.w, LookupCmp(wd))
        ELSE Exp("err", "", "secondary", v, wd.w, {})
    ELSE IF PopIsValue(wd) THEN Exp("ok", wd.pop, "none", "", IF HasW(wd) THEN wd.pop ELSE wd.w, {})
    ELSE Exp("err", "", "none", "", wd.w, {})

ExpWrite(wd) ==
    IF ~HasW(wd) THEN [Exp("err", "", "none", "", wd.w, {}) EXCEPT !.unsupported = TRUE]
    ELSE IF wd.op \in {"set", "set_tf"} THEN Exp("ok", "unit", "none", "", wd.pop, {})
    ELSE Exp("ok", "unit", "none", "", IF wd.w = "none" THEN wd.pop ELSE wd.w, {})

Expected(wd) ==
    IF wd.op = "get" THEN ExpGet(wd)
    ELSE IF wd.op = "touch" THEN ExpTouch(wd)
    ELSE IF wd.op \in {"ensure", "gou"} THEN ExpGou(wd)
    ELSE ExpWrite(wd)

\* ---- judging an observation ---------------------------------------------------
\* ob: [out, res, hit, seen, wpost, pairs (set of <<lvl, lvl>> compared by a logging checker), kind]
Connected(nodes, edges) ==
    \* every node reachable from the least one through the (undirected) edges
    nodes = {} \/
    LET start == CHOOSE n \in nodes : \A m \in nodes : n <= m
        step(S) == S \cup {n \in nodes : \E m \in S : <<m, n>> \in edges \/ <<n, m>> \in edges}
        c1 == step({start}) c2 == step(c1) c3 == step(c2) c4 == step(c3)
    IN c4 = nodes

ObservedOK(wd, ob) ==
    LET ex == Expected(wd) IN
    /\ ob.out = ex.out
    /\ ex.out = "ok" => ob.res = ex.res
    \* (ensure's judge is internal to the library: nothing to observe)
    \* and what a judge saw cannot be reported by a call that panicked)
    /\ (wd.op = "gou" /\ ob.out # "panic") => (ob.hit = ex.hit /\ (ex.hit # "none" => ob.seen = ex.seen))
    /\ ob.wpost = ex.wpost
    /\ (ex.unsupported => ob.kind = "Unsupported")
    /\ (wd.checker = "log" /\ ex.out = "ok") =>
          /\ ex.cmp \subseteq (UNION {{p[1], p[2]} : p \in ob.pairs}) \cup (IF Cardinality(ex.cmp) <= 1 THEN ex.cmp ELSE {})
          /\ Connected(ex.cmp, ob.pairs)
    \* with no checker configured, nothing is compared
    /\ (wd.checker = "none" => ob.pairs = {})
=============================================================================
