---- MODULE MCcover5 ----
(* Edge-coverage configuration: stacked cache whose directories do not exist yet; ensure, Accept and Replace on misses. *)
EXTENDS Kismet, Json
ASSUME CoverInit
CoverPost == PrintT(<<"COVER", ToJson(TLCGet(7))>>)
MCProcs == {1, 2}
MCProg == (1 :> <<[api |-> "ensure", key |-> "k", val |-> "a", chunks |-> 1], [api |-> "gou", key |-> "k2", val |-> "b", chunks |-> 1, judge |-> "accept"]>>) @@
          (2 :> <<[api |-> "gou", key |-> "k", val |-> "c", chunks |-> 1, judge |-> "replace"], [api |-> "touch", key |-> "k2", val |-> "", chunks |-> 0],
                  [api |-> "get", key |-> "k", val |-> "", chunks |-> 0]>>)
MCPre == {}
MCPreRO == {}
NoDebris == {}
NoKeyShards == <<>>
====
