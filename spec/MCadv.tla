---- MODULE MCadv ----
(* Tiny capacity, maintenance on every write, directories initially absent, an outside party deleting published files (C05). *)
EXTENDS Kismet
MCProcs == {1, 2}
MCProg == (1 :> <<[api |-> "set", key |-> "k1", val |-> "a", chunks |-> 1]>>) @@
          (2 :> <<[api |-> "put", key |-> "k2", val |-> "b", chunks |-> 1], [api |-> "touch", key |-> "k1", val |-> "", chunks |-> 0]>>)
MCPre == {}
NoDebris == {}
NoKeyShards == <<>>
NoPreRO == {}
====
