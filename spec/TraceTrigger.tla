----------------------------- MODULE TraceTrigger -----------------------------
(***************************************************************************)
(* C10 on the real code.                                                    *)
(* (a) records of kv-actor --pure ("trigger"): the fire pattern of the real *)
(*     PeriodicTrigger under scripted (adversarial) draws: no window of     *)
(*     max(1, period) events without a fire; a draw of 1 fires at once;     *)
(*     nothing panics.                                                      *)
(* (b) recorded runs of one thread writing to one plain cache of capacity   *)
(*     k: maintenance (the base directory is listed) at least once in every *)
(*     max(1, k div 3) consecutive writes, listing precedes the write's own *)
(*     publication, and the directory never holds more than                 *)
(*     k + max(1, k div 3) files at the return of a write.                  *)
(***************************************************************************)
EXTENDS Naturals, Sequences, FiniteSets, Json, IOUtils, TLC, SequencesExt

Rec == ndJsonDeserialize(IOEnv.TRACE)
Has(r, f) == f \in DOMAIN r

VARIABLES l, st

\* ---- (a) pure records ------------------------------------------------------
\* period is given as a decimal string when it does not fit TLC's integers: such records only carry `huge`
Window(fires, P) == \A i \in 1..(Len(fires) - P + 1) : \E j \in i..(i + P - 1) : fires[j] = 1
PureOK(r) ==
    /\ ~r.panic
    /\ (Has(r, "small") /\ r.small) => Window(r.fires, IF r.p = 0 THEN 1 ELSE r.p)
    /\ (Has(r, "allones") /\ r.allones) => \A i \in 1..Len(r.fires) : r.fires[i] = 1      \* draws of 1 fire at once
    /\ (Has(r, "expect")) => r.fires = r.expect                                              \* exact pattern (period <= 1)

\* ---- (b) on-disk runs -------------------------------------------------------
Fresh(e) == [job |-> e.job, run |-> e.run, cap |-> e.cfg.cap, since |-> 0, listed |-> FALSE, published |-> FALSE,
             viol |-> {}, writes |-> 0, maint |-> 0, maywritefail |-> Has(e.cfg, "maywritefail") /\ e.cfg.maywritefail]
P(s) == IF s.cap \div 3 = 0 THEN 1 ELSE s.cap \div 3
IsKey(n) == Len(n) > 0 /\ SubSeq(n, 1, 1) # "."
Count(snap) == Cardinality({n \in DOMAIN snap.ents["W"] : IsKey(n)})

Step(s, e) ==
    IF e.e = "call" /\ e.p = 1 THEN [s EXCEPT !.listed = FALSE, !.published = FALSE]
    ELSE IF e.e = "sys" /\ e.p = 1 /\ e.ph = "lib" /\ e.call = "open" /\ e.res = "ok" /\ Has(e, "isdir") /\ e.path.d = "." /\ e.path.n = "W" THEN
        [s EXCEPT !.listed = TRUE,
                  !.viol = IF s.published THEN @ \cup {<<e.seq, "MaintBeforePublish">>} ELSE @]
    ELSE IF e.e = "sys" /\ e.p = 1 /\ e.ph = "lib" /\ e.call \in {"rename", "link"} /\ e.res = "ok" /\ e.path2.d = "W" THEN
        [s EXCEPT !.published = TRUE]
    ELSE IF e.e = "ret" /\ e.p = 1 /\ e.api \in {"set", "put"} THEN
        LET since2 == IF s.listed THEN 0 ELSE s.since + 1
            v1 == IF since2 >= P(s) THEN {<<e.seq, "MaintWindow">>} ELSE {}
            v2 == IF Has(e, "snap") /\ "W" \in DOMAIN e.snap.ents /\ Count(e.snap) > s.cap + P(s) THEN {<<e.seq, "CountBound">>} ELSE {}
            \* (worlds whose temp directory cannot be listed make the firing writes fail -- after their maintenance ran)
            v3 == IF (e.ok /\ ~e.panic) \/ (Has(s, "maywritefail") /\ s.maywritefail) THEN {} ELSE {<<e.seq, "WriteOK">>}
        IN [s EXCEPT !.since = since2, !.viol = @ \cup v1 \cup v2 \cup v3, !.writes = @ + 1, !.maint = @ + (IF s.listed THEN 1 ELSE 0)]
    ELSE s

Init == l = 1 /\ st = [job |-> "", run |-> 0, cap |-> 0, since |-> 0, listed |-> FALSE, published |-> FALSE, viol |-> {}, writes |-> 0, maint |-> 0,
                        maywritefail |-> FALSE]
Next ==
    /\ l <= Len(Rec)
    /\ l' = l + 1
    /\ LET e == Rec[l] IN
       IF Has(e, "fn") THEN
            /\ (~PureOK(e) => PrintT(<<"VERDICT", ToJson([job |-> "trigger", run |-> e.id, viol |-> {<<0, "TriggerWindow">>}, fsmis |-> {}])>>))
            /\ UNCHANGED st
       ELSE IF e.e = "reset" THEN st' = Fresh(e)
       ELSE IF e.e = "endrun" THEN
            /\ (st.viol # {} => PrintT(<<"VERDICT", ToJson([job |-> st.job, run |-> st.run, viol |-> st.viol, fsmis |-> {}])>>))
            /\ PrintT(<<"CONF", ToJson([job |-> st.job, run |-> st.run, ops |-> st.writes, maint |-> st.maint, drift |-> <<>>])>>)
            /\ UNCHANGED st
       ELSE st' = Step(st, e)
Spec == Init /\ [][Next]_<<l, st>>

Accepted ==
    /\ PrintT(<<"TRACE-END", TLCGet("stats").diameter - 1, Len(Rec)>>)
    /\ TLCGet("stats").diameter - 1 = Len(Rec)
=============================================================================
