------------------------------- MODULE Trigger -------------------------------
(***************************************************************************)
(* The probabilistic maintenance trigger (src/trigger.rs) with the word     *)
(* size as a parameter: MAXW plays u64::MAX.  A thread-local countdown is   *)
(* decremented by scale(period) = ceil(MAXW / period) per event and fires   *)
(* (and is re-drawn) when it would reach zero.  C10: whatever the draws,    *)
(* no max(1, period) consecutive events pass without a fire.                *)
(***************************************************************************)
EXTENDS Naturals

CONSTANT W              \* word size in bits
MAXW == 2 ^ W - 1

VARIABLES period, c, gap, fired

Eff(p) == IF p = 0 THEN 1 ELSE p
Scale(p) == (MAXW \div Eff(p)) + (IF MAXW % Eff(p) > 0 THEN 1 ELSE 0)
SatMul(a, b) == IF a * b > MAXW THEN MAXW ELSE a * b

\* observe(weight) with the draws d1 (first regeneration) and d2 (second one, first call only); draws are non-zero
\* (a zero draw is retried by the loop in `regenerate`)
Observe(cur, weight, d1, d2) ==
    IF cur > weight THEN [c |-> cur - weight, fire |-> FALSE]
    ELSE IF cur > 0 THEN [c |-> d1, fire |-> TRUE]
    ELSE IF d1 > weight THEN [c |-> d1 - weight, fire |-> FALSE]
    ELSE [c |-> d2, fire |-> TRUE]

Init == period \in 0..MAXW /\ c = 0 /\ gap = 0 /\ fired = FALSE
Event == \E d1, d2 \in 1..MAXW :
            LET r == Observe(c, SatMul(Scale(period), 1), d1, d2) IN
            /\ c' = r.c /\ fired' = r.fire
            /\ gap' = IF r.fire THEN 0 ELSE gap + 1
            /\ UNCHANGED period
Spec == Init /\ [][Event]_<<period, c, gap, fired>>

TypeOK == c \in 0..MAXW /\ Scale(period) \in 1..MAXW
\* at most max(1, period) - 1 consecutive events without maintenance
WindowBound == gap <= Eff(period) - 1
\* period 0 or 1: every event fires
AlwaysFires == Eff(period) = 1 => gap = 0
\* the counter is never zero once initialised
NonZero == (gap > 0 \/ fired) => c > 0
=============================================================================
