\* MODULE MCplain2
SPECIFICATION Spec
CONSTANTS
  Procs <- MCProcs
  Prog <- MCProg
  Cap = 100
  Maint = "never"
  DirsExist = TRUE
  Pre <- MCPre
  WriteFallback = FALSE
  CrashBudget = 0
  AdvBudget = 0
  Debris <- NoDebris
  PreRO <- NoPreRO
  FrontKind = "plain"
  KeyShards <- NoKeyShards
  FaultBudget = 0
VIEW View
INVARIANTS InvDirValid InvDebris InvHandle InvNoErr InvFdBound InvNoResidue
PROPERTIES StepImmutable StepReadOnlyFirst StepRemoval StepRegister StepGetLin
CHECK_DEADLOCK FALSE
