---- MODULE MCcover1 ----
(* Edge-coverage configuration: maintenance nondeterministic, tiny capacity, stale debris, pre-filled entries. *)
EXTENDS Kismet, Json
ASSUME CoverInit
CoverPost == PrintT(<<"COVER", ToJson(TLCGet(7))>>)
MCProcs == {1, 2}
MCProg == (1 :> <<[api |-> "set", key |-> "k3", val |-> "a", chunks |-> 2], [api |-> "touch", key |-> "k1", val |-> "", chunks |-> 0]>>) @@
          (2 :> <<[api |-> "put", key |-> "k1", val |-> "b", chunks |-> 1], [api |-> "get", key |-> "k2", val |-> "", chunks |-> 0]>>)
MCPre == {[key |-> "k1", val |-> "o1"], [key |-> "k2", val |-> "o2"]}
MCDebris == {[name |-> "old", age |-> 4000]}
NoKeyShards == <<>>
NoPreRO == {}
====
