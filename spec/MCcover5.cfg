\* MODULE MCcover5
SPECIFICATION Spec
CONSTANTS
  Procs <- MCProcs
  Prog <- MCProg
  Cap = 100
  Maint = "never"
  DirsExist = FALSE
  Pre <- MCPre
  WriteFallback = FALSE
  CrashBudget = 0
  AdvBudget = 0
  Debris <- NoDebris
  PreRO <- MCPreRO
  FrontKind = "stack"
  KeyShards <- NoKeyShards
  FaultBudget = 0
VIEW View
ACTION_CONSTRAINT CoverAC
POSTCONDITION CoverPost
INVARIANTS InvDirValid InvNoErr
CHECK_DEADLOCK FALSE
