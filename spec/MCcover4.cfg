\* MODULE MCcover4
SPECIFICATION Spec
CONSTANTS
  Procs <- MCProcs
  Prog <- MCProg
  Cap = 1
  Maint = "nondet"
  DirsExist = TRUE
  Pre <- MCPre
  WriteFallback = FALSE
  CrashBudget = 0
  AdvBudget = 0
  Debris <- NoDebris
  PreRO <- MCPreRO
  FrontKind = "stack"
  KeyShards <- NoKeyShards
  FaultBudget = 0
VIEW View
ACTION_CONSTRAINT CoverAC
POSTCONDITION CoverPost
INVARIANTS InvDirValid InvNoErr
CHECK_DEADLOCK FALSE
