---- MODULE MCplain2q ----
(* Exhaustive configuration: 2 participants, 1-2 operations each, one key, plain directory. *)
EXTENDS Kismet
MCProcs == {1, 2}
MCProg == (1 :> <<[api |-> "put", key |-> "k", val |-> "a", chunks |-> 2]>>) @@
          (2 :> <<[api |-> "set", key |-> "k", val |-> "b", chunks |-> 1], [api |-> "get", key |-> "k", val |-> "", chunks |-> 0]>>)
MCPre == {}
NoDebris == {}
NoKeyShards == <<>>
NoPreRO == {}
====
