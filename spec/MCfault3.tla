---- MODULE MCfault3 ----
(* C18 on the stacked cache: ensure (miss and promotion of a read-only hit) with one injected failure; drop guards must *)
(* remove the temporary file, nothing unsynced is published, the read-only root stays untouched.                       *)
EXTENDS Kismet
MCProcs == {1, 2}
MCProg == (1 :> <<[api |-> "ensure", key |-> "k9", val |-> "a", chunks |-> 1]>>) @@
          (2 :> <<[api |-> "ensure", key |-> "k", val |-> "b", chunks |-> 1], [api |-> "get", key |-> "k9", val |-> "", chunks |-> 0]>>)
MCPre == {}
MCPreRO == {[key |-> "k", val |-> "ro"]}
NoDebris == {}
NoKeyShards == <<>>
====
