---- MODULE MCcover2 ----
(* Edge-coverage configuration: directories initially absent (create_dir_all sub-machine, publish retry), outside deletions. *)
EXTENDS Kismet, Json
ASSUME CoverInit
CoverPost == PrintT(<<"COVER", ToJson(TLCGet(7))>>)
MCProcs == {1, 2}
MCProg == (1 :> <<[api |-> "set", key |-> "k1", val |-> "a", chunks |-> 1], [api |-> "get", key |-> "k2", val |-> "", chunks |-> 0]>>) @@
          (2 :> <<[api |-> "put", key |-> "k2", val |-> "b", chunks |-> 1], [api |-> "touch", key |-> "k1", val |-> "", chunks |-> 0],
                  [api |-> "put", key |-> "k1", val |-> "c", chunks |-> 1]>>)
MCPre == {}
NoDebris == {}
NoKeyShards == <<>>
NoPreRO == {}
====
