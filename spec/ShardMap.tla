------------------------------ MODULE ShardMap ------------------------------
(***************************************************************************)
(* Shard placement of the sharded cache (src/sharded.rs,                    *)
(* src/multiplicative_hash.rs) in arithmetic TLC can do: 64-bit values are  *)
(* little-endian sequences of 8 base-256 limbs.                             *)
(*    Mix(x, m, a)  = (x * m + a) mod 2^64                                  *)
(*    Reduce(x, n)  = (n * x) >> 64                                         *)
(*    Ids(h, s, n)  = the two distinct shard indices of a key               *)
(*    DirName(i)    = ".kismet_" + at least four lowercase hex digits       *)
(* The mixer constants are the first 16 bytes of SHA-256 of the two fixed   *)
(* strings (multiplier forced odd); they are pinned here and re-derived by  *)
(* driver/shardconst.py with hashlib (SHA-256 is not re-implemented).       *)
(***************************************************************************)
EXTENDS Naturals, Sequences, TLC

\* little-endian limbs of 0x1118318e21fca3f5, 0x129fa3ff355eb0b2, 0x778324ea04de244f, 0x940cab7258b48cb6
PM == <<245, 163, 252, 33, 142, 49, 24, 17>>
PA == <<178, 176, 94, 53, 255, 163, 159, 18>>
SM == <<79, 36, 222, 4, 234, 36, 131, 119>>
SA == <<182, 140, 180, 88, 114, 171, 12, 148>>

Limb(x, i) == IF i <= Len(x) THEN x[i] ELSE 0

\* column sums of the schoolbook product, truncated to k limbs, then carry propagation
RECURSIVE Carry(_, _, _)
Carry(cols, i, c) ==
    IF i > Len(cols) THEN <<>>
    ELSE LET v == cols[i] + c IN <<v % 256>> \o Carry(cols, i + 1, v \div 256)

RECURSIVE SumTo(_, _, _, _)
SumTo(a, b, k, j) == IF j > k THEN 0 ELSE Limb(a, j) * Limb(b, k - j + 1) + SumTo(a, b, k, j + 1)
MulLow(a, b, n) == Carry([k \in 1..n |-> SumTo(a, b, k, 1)], 1, 0)
AddLow(a, b, n) == Carry([k \in 1..n |-> Limb(a, k) + Limb(b, k)], 1, 0)

Mix(x, m, a) == AddLow(MulLow(x, m, 8), a, 8)

\* n is an ordinary integer below 2^20: n*x has at most 11 limbs; the quotient by 2^64 is limbs 9..11
ScaleCols(x, n) == [k \in 1..11 |-> Limb(x, k) * n]
Reduce(x, n) == LET p == Carry(ScaleCols(x, n), 1, 0) IN p[9] + 256 * p[10] + 65536 * p[11]

N2(n) == IF n < 2 THEN 2 ELSE n
Ids(h, s, n) ==
    LET a == Reduce(Mix(h, PM, PA), N2(n))
        b == Reduce(Mix(s, SM, SA), N2(n))
    IN <<a, IF a = b THEN (IF b + 1 < N2(n) THEN b + 1 ELSE 0) ELSE b>>

HexDigits == <<"0", "1", "2", "3", "4", "5", "6", "7", "8", "9", "a", "b", "c", "d", "e", "f">>
RECURSIVE Hex(_)
Hex(i) == IF i < 16 THEN HexDigits[i + 1] ELSE Hex(i \div 16) \o HexDigits[(i % 16) + 1]
RECURSIVE Pad4(_)
Pad4(s) == IF Len(s) >= 4 THEN s ELSE Pad4("0" \o s)
DirName(i) == ".kismet_" \o Pad4(Hex(i))

\* structural facts (checked on every vector): both ids in range and distinct
IdsOK(h, s, n) == LET p == Ids(h, s, n) IN p[1] < N2(n) /\ p[2] < N2(n) /\ p[1] # p[2]
=============================================================================
