\* MODULE Atime
SPECIFICATION Spec
CONSTANTS
  Policy = "relatime"
  Gran = 3
  Delta = 0
  MaxT = 14
  ReTouch = TRUE
INVARIANTS MarkAfterUse FreshAfterInsert NoFalseMark
PROPERTIES UseKeepsRank
CHECK_DEADLOCK FALSE
