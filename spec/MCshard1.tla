---- MODULE MCshard1 ----
(* One participant, sharded root, sequential writes of keys with swapped candidates and a key pre-existing in its *)
(* alternate shard: never two copies (C11), nothing lost without maintenance.                                     *)
EXTENDS Kismet
MCProcs == {1}
MCProg == (1 :> <<[api |-> "set", key |-> "k1", val |-> "a", chunks |-> 1], [api |-> "put", key |-> "k2", val |-> "b", chunks |-> 1],
                  [api |-> "set", key |-> "k2", val |-> "c", chunks |-> 1], [api |-> "get", key |-> "k2", val |-> "", chunks |-> 0]>>)
MCPre == {[key |-> "k3", val |-> "o3"]}
MCKeyShards == ("k1" :> <<0, 1>>) @@ ("k2" :> <<0, 1>>) @@ ("k3" :> <<1, 0>>)
NoDebris == {}
NoPreRO == {}
====
