---- MODULE MCplain3 ----
(* Three participants on one key of a plain directory: set || put || get;touch -- every interleaving. *)
EXTENDS Kismet
MCProcs == {1, 2, 3}
MCProg == (1 :> <<[api |-> "set", key |-> "k", val |-> "a", chunks |-> 1]>>) @@
          (2 :> <<[api |-> "put", key |-> "k", val |-> "b", chunks |-> 1]>>) @@
          (3 :> <<[api |-> "get", key |-> "k", val |-> "", chunks |-> 0], [api |-> "touch", key |-> "k", val |-> "", chunks |-> 0]>>)
MCPre == {}
NoDebris == {}
NoKeyShards == <<>>
NoPreRO == {}
====
