---- MODULE MCstack5q ----
(* Quick variant of MCstack5: Replace of a hit in the write cache racing a set and a lookup of the same key. *)
EXTENDS Kismet
MCProcs == {1, 2}
MCProg == (1 :> <<[api |-> "gou", key |-> "k", val |-> "a", chunks |-> 1, judge |-> "replace"]>>) @@
          (2 :> <<[api |-> "set", key |-> "k", val |-> "b", chunks |-> 1], [api |-> "get", key |-> "k", val |-> "", chunks |-> 0]>>)
MCPre == {[key |-> "k", val |-> "old"]}
MCPreRO == {[key |-> "k2", val |-> "ro"]}
NoDebris == {}
NoKeyShards == <<>>
====
