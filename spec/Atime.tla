-------------------------------- MODULE Atime --------------------------------
(***************************************************************************)
(* C09 at design level: the (mtime, atime) encoding of queue position and   *)
(* read mark of two cached files under every sequence of operations, every  *)
(* access-time policy and timestamp granularity, with time passing freely.  *)
(*   insert   (set, or a put that inserts; a maintenance reprieve is the    *)
(*            same stamp): mtime := now, atime := now - Delta               *)
(*   get      open; if atime < mtime then atime := mtime (the explicit      *)
(*            re-touch); then the application reads: the kernel may advance *)
(*            atime according to the policy                                 *)
(*   touch    (also put onto an existing key): atime := now                 *)
(* Stored timestamps are floored to multiples of Gran.  `used[f]` is the    *)
(* ghost truth: was f looked up / touched since it last entered the queue.  *)
(***************************************************************************)
EXTENDS Naturals, Integers

CONSTANTS Policy,     \* "strict" | "relatime" | "noatime"
          Gran,       \* granularity of stored timestamps (1 = exact)
          Delta,      \* the library's atime offset on insertion (120 s in the code)
          MaxT,       \* horizon
          ReTouch     \* does get re-touch explicitly (TRUE in the code)

Files == {1, 2}
VARIABLES now, mt, at, used, present, last

Floor(t) == t - (t % Gran)
Marked(f) == at[f] >= mt[f]

Init == now = Delta + Gran /\ mt = [f \in Files |-> 0] /\ at = [f \in Files |-> 0] /\ used = [f \in Files |-> FALSE]
        /\ present = [f \in Files |-> FALSE] /\ last = <<"init", 0>>

Tick == now < MaxT /\ now' = now + 1 /\ UNCHANGED <<mt, at, used, present>> /\ last' = <<"tick", 0>>

Insert(f) == /\ mt' = [mt EXCEPT ![f] = Floor(now)]
             /\ at' = [at EXCEPT ![f] = Floor(now - Delta)]
             /\ used' = [used EXCEPT ![f] = FALSE] /\ present' = [present EXCEPT ![f] = TRUE]
             /\ last' = <<"insert", f>> /\ UNCHANGED now

KernelRead(a, m) ==      \* the atime after read(2) under the policy (relatime: updated iff atime <= mtime; the 24 h rule is out of the horizon)
    IF Policy = "strict" THEN Floor(now)
    ELSE IF Policy = "relatime" THEN (IF a <= m THEN Floor(now) ELSE a)
    ELSE a
Get(f) == /\ present[f]
          /\ LET a1 == IF ReTouch /\ at[f] < mt[f] THEN mt[f] ELSE at[f] IN
             \E reads \in BOOLEAN : at' = [at EXCEPT ![f] = IF reads THEN KernelRead(a1, mt[f]) ELSE a1]
          /\ used' = [used EXCEPT ![f] = TRUE] /\ last' = <<"get", f>> /\ UNCHANGED <<now, mt, present>>
Touch(f) == /\ present[f] /\ at' = [at EXCEPT ![f] = Floor(now)] /\ used' = [used EXCEPT ![f] = TRUE]
            /\ last' = <<"touch", f>> /\ UNCHANGED <<now, mt, present>>

Next == Tick \/ \E f \in Files : Insert(f) \/ Get(f) \/ Touch(f)
Spec == Init /\ [][Next]_<<now, mt, at, used, present, last>>

\* after get / touch the entry is recognised as used; after an insertion it is not, and it is the newest
MarkAfterUse == last[1] \in {"get", "touch"} => Marked(last[2])
FreshAfterInsert == last[1] = "insert" => ~Marked(last[2]) /\ \A g \in Files : present[g] => mt[g] <= mt[last[2]]
\* the mark is exact: an entry that was not used since it entered the queue is never marked, however time passes
NoFalseMark == \A f \in Files : present[f] /\ ~used[f] => ~Marked(f)
\* a use never moves the queue position
UseKeepsRank == [][last'[1] \in {"get", "touch"} => mt' = mt]_<<now, mt, at, used, present, last>>
=============================================================================
