---- MODULE MCfault1 ----
(* C18 at design level: one participant, every library call of its operations may fail once (EIO; ESTALE where the  *)
(* code treats it as "absent"); tiny capacity with maintenance on every write, stale debris, pre-filled entries.     *)
EXTENDS Kismet
MCProcs == {1}
MCProg == (1 :> <<[api |-> "set", key |-> "k1", val |-> "a", chunks |-> 1], [api |-> "put", key |-> "k1", val |-> "b", chunks |-> 1],
                 [api |-> "get", key |-> "k1", val |-> "", chunks |-> 0], [api |-> "touch", key |-> "k2", val |-> "", chunks |-> 0]>>)
MCPre == {[key |-> "k2", val |-> "o2"], [key |-> "k3", val |-> "o3"]}
MCDebris == {[name |-> "old", age |-> 4000]}
NoKeyShards == <<>>
NoPreRO == {}
====
