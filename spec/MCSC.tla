-------------------------------- MODULE MCSC --------------------------------
(***************************************************************************)
(* Exhaustive design-level check of SecondChance.tla (C08, and the relation *)
(* C07 lifts to directories):                                               *)
(*   PlanIsClock   the transcribed planner equals the textbook queue run on *)
(*                 the stably sorted entries, for every input and capacity; *)
(*   PlanSatisfies PlanOK accepts the planner's own outcome;                *)
(*   Exact         (small N) PlanOK accepts EXACTLY the outcomes of the     *)
(*                 textbook queue over all orderings of equally ranked      *)
(*                 entries: it neither over- nor under-demands.             *)
(***************************************************************************)
EXTENDS SecondChance, Integers

CONSTANTS N, Ranks, CheckExact

VARIABLE inp

Ent(i, r, a) == [id |-> i, rank |-> <<r, 0>>, acc |-> a]
Inputs == UNION {{[i \in 1..n |-> Ent(i, f[i][1], f[i][2])] : f \in [1..n -> Ranks \X BOOLEAN]} : n \in 0..N}

Init == inp \in Inputs
Next == UNCHANGED inp

IdsOf(q) == [i \in 1..Len(q) |-> q[i].id]

PlanIsClock == \A cap \in 0..N + 1 :
    LET p == Plan(inp, cap) c == Clock(StableSort(inp), cap) IN
    IdsOf(p.evict) = c.evict /\ IdsOf(p.back) = c.back

PlanSatisfies == \A cap \in 0..N + 1 :
    LET p == Plan(inp, cap) IN PlanOK(inp, cap, IdsOf(p.evict), IdsOf(p.back))

Structural == \A cap \in 0..N + 1 :
    LET p == Plan(inp, cap) n == Len(inp) IN
    /\ Len(p.evict) = (IF n > cap THEN n - cap ELSE 0)
    /\ (n <= cap => p.evict = <<>> /\ p.back = <<>>)
    /\ SeqToSet(IdsOf(p.evict)) \cap SeqToSet(IdsOf(p.back)) = {}
    /\ SeqToSet(IdsOf(p.evict)) \cup SeqToSet(IdsOf(p.back)) \subseteq 1..n

\* all rank-sorted orderings of the input (ties in every order)
Perms(S) == {f \in [1..Cardinality(S) -> S] : \A i, j \in 1..Cardinality(S) : i # j => f[i] # f[j]}
SortedOrders == {o \in Perms(SeqToSet(inp)) : \A i \in 1..Len(o) - 1 : RLe(o[i].rank, o[i + 1].rank)}
ClockOutcomes(cap) == {[ev |-> SeqToSet(Clock(o, cap).evict), bk |-> Clock(o, cap).back] : o \in SortedOrders}
\* every candidate outcome: a set of evicted ids and a duplicate-free sequence of other ids
SeqsOver(S) == UNION {{f \in [1..k -> S] : \A i, j \in 1..k : i # j => f[i] # f[j]} : k \in 0..Cardinality(S)}
Exact == ~CheckExact \/ \A cap \in 0..N + 1 :
    LET ids == 1..Len(inp) IN
    \A E \in SUBSET ids : \A bk \in SeqsOver(ids \ E) :
        PlanOK(inp, cap, SetToSeq(E), bk) <=> [ev |-> E, bk |-> bk] \in ClockOutcomes(cap)
=============================================================================
