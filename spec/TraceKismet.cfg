SPECIFICATION TSpec
CONSTANTS
  Procs <- NoProcs
  Prog <- NoProg
  Cap = 0
  Maint = "nondet"
  DirsExist = TRUE
  Pre <- NoProcs
  WriteFallback = FALSE
  CrashBudget = 0
  AdvBudget = 0
  Debris <- NoDebris
  PreRO <- NoPreRO
  FrontKind = "plain"
  KeyShards <- NoKeyShards
  FaultBudget = 0
POSTCONDITION Accepted
CHECK_DEADLOCK FALSE
