---- MODULE MCstack3 ----
(* Stacked cache: concurrent ensure misses on the same key (the loser adopts the winner), a crash allowed anywhere. *)
EXTENDS Kismet
MCProcs == {1, 2}
MCProg == (1 :> <<[api |-> "ensure", key |-> "k9", val |-> "a", chunks |-> 2]>>) @@
          (2 :> <<[api |-> "ensure", key |-> "k9", val |-> "b", chunks |-> 1], [api |-> "touch", key |-> "k9", val |-> "", chunks |-> 0]>>)
MCPre == {}
MCPreRO == {[key |-> "k", val |-> "ro"]}
NoDebris == {}
NoKeyShards == <<>>
====
