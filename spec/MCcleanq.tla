---- MODULE MCcleanq ----
(* Quick variant of MCclean: one maintaining writer racing one reader. *)
EXTENDS Kismet
MCProcs == {1, 2}
MCProg == (1 :> <<[api |-> "set", key |-> "k3", val |-> "a", chunks |-> 1]>>) @@
          (2 :> <<[api |-> "get", key |-> "k2", val |-> "", chunks |-> 0]>>)
MCPre == {[key |-> "k1", val |-> "o1"], [key |-> "k2", val |-> "o2"]}
MCDebris == {[name |-> "old", age |-> 4000], [name |-> "young", age |-> 10]}
NoDebris == {}
NoKeyShards == <<>>
NoPreRO == {}
====
