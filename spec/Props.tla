-------------------------------- MODULE Props --------------------------------
(***************************************************************************)
(* The properties of kismet-cache that are statements about directory       *)
(* states, system-call steps and API returns, each stated once as an        *)
(* operator over explicit arguments:                                        *)
(*    cfg  the world description (roots, roles, auto_sync, ...)             *)
(*    s    the state before a step, s2 the state after it                   *)
(*    e    the step's label (a tracer event / a Kismet.tla action label)    *)
(* They are evaluated by TLC (a) on every state/step of Kismet.tla's        *)
(* exhaustive configurations and (b) on every state/step of every recorded  *)
(* execution of the real library (TraceProps.tla).                          *)
(*                                                                         *)
(* A state s has at least: fs (PosixFS state), fds, dirty, syncfail, pubs,  *)
(* supplied, planted, cur, steps, listed, created, opfds.                   *)
(***************************************************************************)
EXTENDS PosixFS, SecondChance, Stack

Get(f, k, dflt) == IF k \in DOMAIN f THEN f[k] ELSE dflt
Put(f, k, v) == (k :> v) @@ f
Del(f, k) == [x \in (DOMAIN f) \ {k} |-> f[x]]
SeqSet(q) == {q[i] : i \in 1..Len(q)}

\* ---- world description --------------------------------------------------
\* cfg.roots : sequence of [id, kind \in {"plain","sharded"}, role \in {"w","ro"}]
Roots(cfg) == IF Has(cfg, "roots") THEN SeqSet(cfg.roots) ELSE {}
IsShardDirOf(d, r) == IsPrefix(r \o "/.kismet_", d) /\ ~IsTempDir(d) /\ Len(d) = Len(r) + 13
RootOfCacheDir(cfg, d) ==
    {r \in Roots(cfg) : (r.kind = "plain" /\ d = r.id) \/ (r.kind = "sharded" /\ IsShardDirOf(d, r.id))}
IsCacheDir(cfg, d) == RootOfCacheDir(cfg, d) # {}
IsWCacheDir(cfg, d) == \E r \in RootOfCacheDir(cfg, d) : r.role = "w"
ParentOfTemp(d) == SubSeq(d, 1, Len(d) - 13)
IsKismetTemp(cfg, d) == IsTempDir(d) /\ Len(d) > 13 /\ IsCacheDir(cfg, ParentOfTemp(d))
IsRODir(cfg, d) == \E r \in Roots(cfg) : r.role = "ro" /\ Under(d, r.id)
IsPrivDir(d) == Under(d, "SRC") \/ Under(d, "TMP")
\* directories the library may create: roots, shard dirs, their temp dirs, and ancestors of roots
IsStructuralDir(cfg, d) ==
    \/ IsCacheDir(cfg, d) \/ IsKismetTemp(cfg, d)
    \/ \E r \in Roots(cfg) : r.role = "w" /\ (d = r.id \/ Under(r.id, d))

\* ---- content ------------------------------------------------------------
Complete(c) == /\ Has(c, "kind") /\ c.kind = "value"
               /\ Len(c.chunks) = c.of /\ \A k \in 1..Len(c.chunks) : c.chunks[k] = k
ValueFor(c, key) == Complete(c) /\ c.key = key

\* ---- C01 / C02 / C19: every key name is bound to a complete read-only value for that key
KeyEntryOK(cfg, s, d, n) ==
    LET i == s.fs.ents[d][n] IN
    i # "DIR" /\ IsKeyName(n) /\ <<d, n>> \notin s.planted =>
        /\ i \in DOMAIN s.fs.inos
        /\ ValueFor(s.fs.inos[i].c, n)
        /\ ~Writable(s.fs.inos[i].mode)
        /\ <<n, s.fs.inos[i].c.val>> \in s.supplied
DirValid(cfg, s) ==
    \A d \in DOMAIN s.fs.ents : IsCacheDir(cfg, d) => \A n \in DOMAIN s.fs.ents[d] : KeyEntryOK(cfg, s, d, n)
BadEntries(cfg, s) ==
    {<<d, n>> \in UNION {{<<d, n>> : n \in DOMAIN s.fs.ents[d]} : d \in {x \in DOMAIN s.fs.ents : IsCacheDir(cfg, x)}} :
        ~KeyEntryOK(cfg, s, d, n)}

\* ---- C02: debris is confined to .kismet_temp
DebrisConfined(cfg, s) ==
    \A d \in DOMAIN s.fs.ents :
        /\ IsWCacheDir(cfg, d) =>
              \A n \in DOMAIN s.fs.ents[d] : IsKeyName(n) \/ IsKismetName(n) \/ <<d, n>> \in s.planted
        /\ (\E r \in Roots(cfg) : r.kind = "sharded" /\ r.role = "w" /\ d = r.id) =>
              \A n \in DOMAIN s.fs.ents[d] : IsKismetName(n) \/ <<d, n>> \in s.planted

\* ---- C01 / C19: what a returned handle yields
IsLookup(api) == api \in {"get", "ensure", "gou"}
HandleContentOK(s, e) ==
    Has(e, "handle") /\ IsLookup(e.api) /\ e.p \in DOMAIN s.cur =>
        /\ ValueFor(e.handle.c, s.cur[e.p].key)
        /\ <<e.handle.c.key, e.handle.c.val>> \in s.supplied
HandleInode(s, e) == IF e.p \in DOMAIN s.fds /\ e.handle.fd \in DOMAIN s.fds[e.p] THEN s.fds[e.p][e.handle.fd].ino ELSE "NONE"
HandleModeOK(s, e) ==
    Has(e, "handle") /\ IsLookup(e.api) =>
        /\ e.handle.off = 0
        /\ (HandleInode(s, e) \in DOMAIN s.pubs => e.handle.acc = "r")

\* ---- C01 / C03: published inodes are immutable
DataMutation(e) == e.e = "sys" /\ e.res = "ok" /\
    (e.call \in {"write", "copy", "truncate"} \/ (e.call = "open" /\ "TRUNC" \in FlagSet(e)))
    \* (a chmod that changes nothing is not a re-mode: mode changes are caught on the snapshots below)
ImmutableStep(s, e, s2) ==
    /\ (DataMutation(e) /\ e.ph # "world" => Target(s.fs, e) \notin DOMAIN s.pubs)
    /\ \A i \in DOMAIN s.pubs : (i \in DOMAIN s.fs.inos /\ i \in DOMAIN s2.fs.inos /\ ~(Has(e, "ph") /\ e.ph = "world")) =>
            s2.fs.inos[i].c = s.fs.inos[i].c /\ s2.fs.inos[i].mode = s.fs.inos[i].mode

\* ---- C03: durable and read-only before visible
Publishes(cfg, e) == /\ e.e = "sys" /\ e.res = "ok" /\ e.call \in {"link", "rename"} /\ e.ph # "world"
                     /\ ~Outside(e.path2) /\ IsCacheDir(cfg, DirOf(e.path2)) /\ IsKeyName(e.path2.n)
DurableFirst(cfg, s, e) ==
    Publishes(cfg, e) /\ IsWCacheDir(cfg, DirOf(e.path2)) /\ Has(cfg, "autosync") /\ cfg.autosync =>
        LET i == Lookup(s.fs, e.path) IN
        /\ i \notin s.dirty /\ i \notin s.syncfail
        /\ i \in DOMAIN s.fs.inos => ~Writable(s.fs.inos[i].mode)
ReadOnlyFirst(cfg, s, e) ==
    Publishes(cfg, e) => LET i == Lookup(s.fs, e.path) IN i \in DOMAIN s.fs.inos => ~Writable(s.fs.inos[i].mode)

\* ---- C04 (step form, = Kismet!StepRegister on real executions): the inode bound under a key name is replaced only
\* by the rename of an overwriting operation (set / set_temp_file / get_or_update(Replace)); insert-if-absent
\* operations (put, put_temp_file, ensure, promotion) never change an existing binding.
Rebinds(cfg, s, s2) ==
    {<<d, n>> \in UNION {{<<d, n>> : n \in DOMAIN s.fs.ents[d]} : d \in {x \in DOMAIN s.fs.ents : IsCacheDir(cfg, x)}} :
        /\ IsKeyName(n) /\ s.fs.ents[d][n] # "DIR"
        /\ d \in DOMAIN s2.fs.ents /\ n \in DOMAIN s2.fs.ents[d] /\ s2.fs.ents[d][n] # s.fs.ents[d][n]}
PutNeverReplaces(cfg, s, e, s2) ==
    e.e = "sys" /\ e.ph \in {"lib", "cb"} /\ Rebinds(cfg, s, s2) # {} =>
        /\ e.call = "rename"
        /\ e.api \in {"set", "set_tf", "gou"}
        /\ (e.api = "gou" => e.p \in DOMAIN s.cur /\ Has(s.cur[e.p], "judge") /\ s.cur[e.p].judge = "replace")

\* C13: get_or_update whose judge answered Replace for a hit (in the write cache or in a read-only level) stores and returns the newly
\* populated value -- whatever other writers do meanwhile (it publishes with set's rename, never with put's insert-if-absent)
ReplaceOwn(s, e) ==
    e.e = "obs" /\ e.api = "gou" /\ e.p \in DOMAIN s.cur /\ Has(s.cur[e.p], "judge") /\ s.cur[e.p].judge = "replace" /\ Has(s.cur[e.p], "val")
        /\ e.p \in DOMAIN s.lastret /\ s.lastret[e.p].ok /\ Has(s.lastret[e.p], "judge") /\ Has(e, "handle") =>      \* ("judge": the judge was consulted, i.e. there was a hit)
        Has(e.handle.c, "val") /\ e.handle.c.val = s.cur[e.p].val

\* C14 (worlds built so that some copy disagrees with the first one -- e.g. by a single missing byte at its end): the lookups of participant 1
\* must report it
ExpectFail(cfg, e) ==
    e.e = "ret" /\ Has(cfg, "expectfail") /\ cfg.expectfail /\ e.p = 1 /\ ~(Has(e, "world") /\ e.world) /\ e.api \in {"get", "ensure", "gou"} =>
        ~e.ok \/ e.panic

\* C13 (worlds in which the write cache holds value cfg.expectval for the key while read-only levels and populate hold others, and in
\* which calls fail with errors that do NOT mean "gone"): a lookup of participant 1 either fails or returns the write cache's copy --
\* a failing look at the write cache is an error, not a miss that lower levels or populate may answer
ExpectVal(cfg, e) ==
    e.e = "obs" /\ Has(cfg, "expectval") /\ e.p = 1 /\ Has(e, "handle") /\ Has(e.handle, "c") =>
        Has(e.handle.c, "val") /\ e.handle.c.val = cfg.expectval

\* ---- C05: no error, no panic (runs of this property inject nothing and use valid names)
NoErr(e) == e.e = "ret" /\ ~(Has(e, "world") /\ e.world) => e.ok /\ ~e.panic

\* ---- C06 / C20: bounded steps, no locks
StepBound(s, p) ==
    LET api == IF p \in DOMAIN s.cur THEN s.cur[p].api ELSE "none"
        listed == Get(s.listed, p, 0)
    IN IF api \in {"get", "touch"} THEN 8 * 8 + 8 * listed
       ELSE 96 + 8 * listed
Bounded(s, p) == Get(s.steps, p, 0) <= StepBound(s, p)
NoLocks(cfg, e) ==
    e.e = "sys" /\ e.ph \in {"lib", "cb"} =>
        /\ e.call # "lock"
        /\ (e.call = "open" /\ e.res = "ok" /\ "CREAT" \in FlagSet(e) /\ ~Outside(e.path)) =>
              IsKismetTemp(cfg, DirOf(e.path)) \/ IsPrivDir(DirOf(e.path))

\* ---- C15: read-only roots are never modified
MutatingKind(e) ==
    \/ e.call \in {"mkdir", "rmdir", "rename", "link", "unlink", "chmod", "chown", "truncate", "write", "copy", "symlink"}
    \/ (e.call = "open" /\ FlagSet(e) \cap {"CREAT", "TRUNC", "WRONLY", "RDWR", "TMPFILE"} # {})
    \/ (e.call = "utimens" /\ e.mtk # "omit")
EventDirs(e) ==
    (IF Has(e, "path") /\ ~Outside(e.path) THEN {DirOf(e.path), DirId(e.path)} ELSE {}) \cup
    (IF Has(e, "path2") /\ ~Outside(e.path2) THEN {DirOf(e.path2), DirId(e.path2)} ELSE {}) \cup
    (IF Has(e, "fdpath") /\ ~Outside(e.fdpath) THEN {DirOf(e.fdpath)} ELSE {})
SameButAtime(a, b) == a.mode = b.mode /\ a.mt = b.mt /\ a.nlink = b.nlink /\ a.c = b.c
ROUntouched(cfg, s, e, s2) ==
    /\ (e.e = "sys" /\ e.res = "ok" /\ e.ph # "world" /\ MutatingKind(e)) => \A d \in EventDirs(e) : ~IsRODir(cfg, d)
    /\ (Has(e, "ph") /\ e.ph = "world") \/
       /\ \A d \in DOMAIN s2.fs.ents : IsRODir(cfg, d) => d \in DOMAIN s.fs.ents /\ s2.fs.ents[d] = s.fs.ents[d]
       /\ \A d \in DOMAIN s.fs.ents : IsRODir(cfg, d) =>
              /\ d \in DOMAIN s2.fs.ents
              /\ \A n \in DOMAIN s.fs.ents[d] : LET i == s.fs.ents[d][n] IN
                    i # "DIR" /\ i \in DOMAIN s.fs.inos /\ i \in DOMAIN s2.fs.inos => SameButAtime(s.fs.inos[i], s2.fs.inos[i])

\* ---- C16: names are validated; effects are confined
\* Names that can never denote one regular file directly inside the cache directory: empty, reserved first byte,
\* or containing a path separator (such a name would address another directory or a sub-directory).
HasSlash(n) == \E i \in 1..Len(n) : SubSeq(n, i, i) = "/"
InvalidName(n) == Len(n) = 0 \/ FirstChar(n) \in {".", "/", "\\"} \/ HasSlash(n)
CurKey(s, p) == IF p \in DOMAIN s.cur /\ Has(s.cur[p], "key") THEN s.cur[p].key ELSE ""
AllowedTarget(cfg, s, e, pth) ==
    \/ Outside(pth) /\ FALSE
    \/ IsPrivDir(DirOf(pth))
    \/ IsKismetTemp(cfg, DirOf(pth))
    \/ IsWCacheDir(cfg, DirOf(pth)) /\ pth.n = CurKey(s, e.p) /\ IsKeyName(pth.n)
    \/ e.call = "mkdir" /\ IsStructuralDir(cfg, DirId(pth))
    \* an O_TMPFILE open creates an anonymous file INSIDE the directory it names
    \/ e.call = "open" /\ Has(e, "flags") /\ (\E i \in 1..Len(e.flags) : e.flags[i] = "TMPFILE")
            /\ (IsKismetTemp(cfg, DirId(pth)) \/ IsPrivDir(DirId(pth)))
    \* maintenance (C07/C17 judge which files): eviction and reprieve of entries of a cache directory
    \/ IsWCacheDir(cfg, DirOf(pth)) /\ e.call \in {"unlink", "utimens", "open"} /\ Lookup(s.fs, pth) # "DIR"
Confined(cfg, s, e) ==
    e.e = "sys" /\ e.res = "ok" /\ e.ph \in {"lib", "cb"} /\ MutatingKind(e) =>
        /\ Has(e, "path") => AllowedTarget(cfg, s, e, e.path)
        /\ Has(e, "path2") => AllowedTarget(cfg, s, e, e.path2)
        /\ (Has(e, "fdpath") /\ ~Has(e, "path")) => (Outside(e.fdpath) => FALSE)
\* stricter form used by the C16 check, whose worlds never run maintenance
ConfinedStrict(cfg, s, e) ==
    e.e = "sys" /\ e.res = "ok" /\ e.ph \in {"lib", "cb"} /\ MutatingKind(e) =>
        \A pth \in (IF Has(e, "path") THEN {e.path} ELSE {}) \cup (IF Has(e, "path2") THEN {e.path2} ELSE {}) :
            \/ IsPrivDir(DirOf(pth)) \/ IsKismetTemp(cfg, DirOf(pth))
            \/ IsWCacheDir(cfg, DirOf(pth)) /\ pth.n = CurKey(s, e.p) /\ IsKeyName(pth.n)
            \/ e.call = "mkdir" /\ IsStructuralDir(cfg, DirId(pth))
RejectedOK(s, e) ==
    e.e = "ret" /\ e.p \in DOMAIN s.cur /\ Has(s.cur[e.p], "key") /\ ~(Has(e, "world") /\ e.world)
        /\ e.api \in {"get", "touch", "set", "put", "ensure", "gou", "set_tf", "put_tf"} /\ InvalidName(s.cur[e.p].key) =>
        ~e.ok /\ ~e.panic /\ Has(e, "kind") /\ e.kind = "InvalidInput"
RejectedNoEffect(cfg, s, e) ==
    e.e = "sys" /\ e.res = "ok" /\ e.ph \in {"lib", "cb"} /\ MutatingKind(e) /\ InvalidName(CurKey(s, e.p))
        /\ e.api \in {"get", "touch", "set", "put", "ensure", "gou", "set_tf", "put_tf"} =>
        \A pth \in (IF Has(e, "path") THEN {e.path} ELSE {}) \cup (IF Has(e, "path2") THEN {e.path2} ELSE {}) :
            IsPrivDir(DirOf(pth)) \/ IsKismetTemp(cfg, DirOf(pth)) \/ (e.call = "mkdir" /\ IsStructuralDir(cfg, DirId(pth)))

\* ---- C07: what maintenance did to a directory is what Second Chance prescribes
\* (entries: the non-directory, non-dot names of the directory; see C17 for dot files)
EntryNames(fs, d) == {n \in DOMAIN fs.ents[d] : fs.ents[d][n] # "DIR" /\ FirstChar(n) # "."}
SubDirs(fs, d) == {n \in DOMAIN fs.ents[d] : fs.ents[d][n] = "DIR"}
InoAt(fs, d, n) == fs.inos[fs.ents[d][n]]
\* The checks, given which entries count as evicted (`gone`), which were really re-stamped (`moved`) and the candidate orders of the
\* re-queued entries (`movedSeqs`: one of them must be the planner's)
PruneChecks(pre, post, d, cap, names, gone, moved, movedSeqs) ==
    LET left == EntryNames(post, d)
        ents == SetToSeq({[id |-> n, rank |-> InoAt(pre, d, n).mt, acc |-> TLe(InoAt(pre, d, n).mt, InoAt(pre, d, n).at)] : n \in names})
    IN /\ left \subseteq names
       /\ SubDirs(pre, d) = SubDirs(post, d)
       /\ \E ms \in movedSeqs : PlanOK(ents, cap, SetToSeq(gone), ms)
       \* reprieved entries re-enter the queue one after the other: their new queue positions are pairwise distinct
       /\ \A a, b \in moved : a # b => InoAt(post, d, a).mt # InoAt(post, d, b).mt
       /\ \A n \in moved :
            /\ post.ents[d][n] = pre.ents[d][n]
            /\ InoAt(post, d, n).at = <<InoAt(post, d, n).mt[1] - 120, InoAt(post, d, n).mt[2]>>     \* read mark cleared
            /\ \A m \in names : TLt(InoAt(pre, d, m).mt, InoAt(post, d, n).mt)                      \* back of the queue
            /\ InoAt(post, d, n).c = InoAt(pre, d, n).c /\ InoAt(post, d, n).mode = InoAt(pre, d, n).mode
       /\ \A n \in (names \cap left) \ moved : post.ents[d][n] = pre.ents[d][n] /\ InoAt(post, d, n) = InoAt(pre, d, n)
MovedIn(pre, post, d) == {n \in EntryNames(pre, d) \cap EntryNames(post, d) : InoAt(post, d, n).mt # InoAt(pre, d, n).mt}
MovedSeqIn(pre, post, d) == SortSeq(SetToSeq(MovedIn(pre, post, d)), LAMBDA a, b : TLt(InoAt(post, d, a).mt, InoAt(post, d, b).mt))
PruneOK(pre, post, d, cap) ==
    LET names == EntryNames(pre, d) IN
    PruneChecks(pre, post, d, cap, names, names \ EntryNames(post, d), MovedIn(pre, post, d), {MovedSeqIn(pre, post, d)})
\* C09: an entry that maintenance spared re-enters the queue unmarked (whatever the timestamp granularity: atime strictly before mtime)
\* (`restamped`: the entries whose modification time the maintenance set -- known from its calls, not from a change of the stored value,
\* which a coarse clock can hide)
ReprieveUnmarks(pre, post, d, restamped) ==
    \A n \in (MovedIn(pre, post, d) \cup restamped) \cap EntryNames(post, d) : TLt(InoAt(post, d, n).at, InoAt(post, d, n).mt)
\* The same when an outside party removed entry v of d while the maintenance ran ("things do disappear from caches"): the outcome is the
\* planner's on the directory as it was listed -- without v (not listed yet), or with v evicted, or with v left alone (and removed
\* afterwards), or with v reprieved but gone before its re-stamp (all OTHER reprieved entries still move to the back).
FsWithout(f, d, v) == [f EXCEPT !.ents[d] = [n \in (DOMAIN @) \ {v} |-> @[n]]]
FsWith(f, d, v, src) == [f EXCEPT !.ents[d] = (v :> src.ents[d][v]) @@ @, !.inos = (src.ents[d][v] :> src.inos[src.ents[d][v]]) @@ @]
PruneOKV(pre, post, d, cap, v) ==
    IF v \notin EntryNames(pre, d) \/ v \in EntryNames(post, d) THEN PruneOK(pre, post, d, cap)
    ELSE LET names == EntryNames(pre, d) ms == MovedSeqIn(pre, post, d) IN
         \/ PruneOK(FsWithout(pre, d, v), post, d, cap)
         \/ PruneOK(pre, post, d, cap)
         \/ PruneOK(pre, FsWith(post, d, v, pre), d, cap)
         \/ PruneChecks(pre, post, d, cap, names, (names \ EntryNames(post, d)) \ {v}, MovedIn(pre, post, d),
                        {InsertAt(ms, i, v) : i \in 1..Len(ms) + 1})

\* nothing outside the configured cache directories (and the application's scratch dirs) changes
UnderSomeRoot(cfg, d) == \E r \in Roots(cfg) : Under(d, r.id)
RootAncestorName(cfg, d, n) == \E r \in Roots(cfg) : LET c == IF d = "." THEN n ELSE d \o "/" \o n IN Under(r.id, c)
OutsideUntouched(cfg, s, e, s2) ==
    Has(e, "ph") /\ e.ph \in {"lib", "cb"} =>
        \A d \in (DOMAIN s.fs.ents) \cup (DOMAIN s2.fs.ents) :
            ~UnderSomeRoot(cfg, d) /\ ~IsPrivDir(d) =>
                /\ d \in DOMAIN s.fs.ents /\ d \in DOMAIN s2.fs.ents
                /\ \A n \in (DOMAIN s.fs.ents[d]) \cup (DOMAIN s2.fs.ents[d]) :
                      RootAncestorName(cfg, d, n) \/ IsPrivDir(IF d = "." THEN n ELSE d \o "/" \o n) \/
                      (/\ n \in DOMAIN s.fs.ents[d] /\ n \in DOMAIN s2.fs.ents[d] /\ s.fs.ents[d][n] = s2.fs.ents[d][n]
                       /\ LET i == s.fs.ents[d][n] IN
                            i # "DIR" /\ i \in DOMAIN s.fs.inos /\ i \in DOMAIN s2.fs.inos => s.fs.inos[i] = s2.fs.inos[i])

\* ---- C17: maintenance deletes only cache entries and stale temporary files
MaxTempAge == 3600
AgeAtLeast(now, t, secs) == TLe(<<t[1] + secs, t[2]>>, now)
RemovalOK(cfg, s, e) ==
    e.e = "sys" /\ e.res = "ok" /\ e.ph \in {"lib", "cb"} =>
        /\ e.call # "rmdir"
        /\ (e.call = "unlink" /\ ~Outside(e.path)) =>
            LET d == DirOf(e.path) i == Lookup(s.fs, e.path) IN
            \/ IsPrivDir(d)
            \/ IsWCacheDir(cfg, d) /\ IsKeyName(e.path.n)
            \/ IsKismetTemp(cfg, d) /\
                 (\/ i \in Get(s.created, e.p, {})
                  \/ i \in DOMAIN s.fs.inos /\ AgeAtLeast(e.now, s.fs.inos[i].mt, MaxTempAge))
IsAppDot(n) == FirstChar(n) = "." /\ ~IsKismetName(n)
DotFilesUntouched(cfg, s, e, s2) ==
    Has(e, "ph") /\ e.ph \in {"lib", "cb"} =>
        \A d \in DOMAIN s.fs.ents : IsCacheDir(cfg, d) =>
            \A n \in DOMAIN s.fs.ents[d] : IsAppDot(n) =>
                /\ d \in DOMAIN s2.fs.ents /\ n \in DOMAIN s2.fs.ents[d] /\ s2.fs.ents[d][n] = s.fs.ents[d][n]
                /\ LET i == s.fs.ents[d][n] IN
                     i # "DIR" /\ i \in DOMAIN s.fs.inos /\ i \in DOMAIN s2.fs.inos => s2.fs.inos[i] = s.fs.inos[i]
\* young temporary files survive; stale ones are gone after a maintenance that listed their directory
YoungTempKept(cfg, s, e, s2) ==
    Has(e, "ph") /\ e.ph \in {"lib", "cb"} /\ e.e = "sys" /\ e.call = "unlink" /\ e.res = "ok" /\ ~Outside(e.path) =>
        LET d == DirOf(e.path) i == Lookup(s.fs, e.path) IN
        IsKismetTemp(cfg, d) /\ i \notin Get(s.created, e.p, {}) /\ i \in DOMAIN s.fs.inos =>
            AgeAtLeast(e.now, s.fs.inos[i].mt, MaxTempAge)
StaleGone(cfg, s, e) ==
    /\ e.e = "ret" /\ e.ok /\ e.p \in DOMAIN s.tlisted =>
        \A d \in s.tlisted[e.p] : d \in DOMAIN s.fs.ents =>
            \A n \in DOMAIN s.fs.ents[d] : LET i == s.fs.ents[d][n] IN
                i # "DIR" /\ i \in DOMAIN s.fs.inos => ~AgeAtLeast(e.now, s.fs.inos[i].mt, MaxTempAge + 2)
    \* every maintenance of a cache directory (its entries were listed by the library's own trigger-driven pass) also sweeps that
    \* directory's temporary files, whatever the pass found to evict
    /\ e.e = "ret" /\ e.ok /\ e.api # "prune" /\ e.p \in DOMAIN s.plisted =>
        \A d \in s.plisted[e.p] : (d \o "/.kismet_temp") \in Get(s.tattempt, e.p, {})       \* (it at least tried to open it for listing)

\* ---- C18: single I/O failures
FaultedOp(s, e) == e.p \in DOMAIN s.faulted /\ s.faulted[e.p] = e.opi
EffectPresent(cfg, s, e) ==
    LET cur == s.cur[e.p] IN
    IF e.api \in {"set", "set_tf"} THEN
        \E d \in DOMAIN s.fs.ents : IsWCacheDir(cfg, d) /\ cur.key \in DOMAIN s.fs.ents[d] /\
            LET i == s.fs.ents[d][cur.key] IN i \in DOMAIN s.fs.inos /\ ValueFor(s.fs.inos[i].c, cur.key) /\ s.fs.inos[i].c.val = cur.val
    ELSE IF e.api \in {"put", "put_tf"} THEN
        \E d \in DOMAIN s.fs.ents : IsWCacheDir(cfg, d) /\ cur.key \in DOMAIN s.fs.ents[d]
    \* ensure (= get_or_update with Promote) leaves the key in the write cache, if there is one: populated on a miss, copied on a
    \* read-only hit; a Replace that succeeds has stored the new value
    ELSE IF e.api = "ensure" \/ (e.api = "gou" /\ Has(cur, "judge") /\ cur.judge = "promote") THEN
        (\E r \in Roots(cfg) : r.role = "w") =>
            \E d \in DOMAIN s.fs.ents : IsWCacheDir(cfg, d) /\ cur.key \in DOMAIN s.fs.ents[d]
    \* (a Replace whose judge was never consulted -- the lookup saw no hit, e.g. because the faulted open said "gone" -- is a miss:
    \* insert-if-absent, like ensure)
    ELSE IF e.api = "gou" /\ Has(cur, "judge") /\ cur.judge = "replace" /\ Has(cur, "val") THEN
        (\E r \in Roots(cfg) : r.role = "w") =>
            \E d \in DOMAIN s.fs.ents : IsWCacheDir(cfg, d) /\ cur.key \in DOMAIN s.fs.ents[d] /\
                LET i == s.fs.ents[d][cur.key] IN i \in DOMAIN s.fs.inos /\ ValueFor(s.fs.inos[i].c, cur.key) /\
                    (Has(e, "judge") => s.fs.inos[i].c.val = cur.val)
    ELSE TRUE
FaultOK(cfg, s, e) ==
    e.e = "ret" /\ e.p \in DOMAIN s.cur /\ ~(Has(e, "world") /\ e.world) /\ FaultedOp(s, e) =>
        /\ ~e.ok \/ EffectPresent(cfg, s, e)
        /\ e.panic => s.faultcall[e.p] = "fsync"
\* operations that were not hit by the fault (later ones of the same participant, and every other
\* participant's, e.g. the fresh follow-up actor) succeed
FollowUpOK(s, e) ==
    e.e = "ret" /\ ~(Has(e, "world") /\ e.world) /\ ~FaultedOp(s, e) => e.ok /\ ~e.panic
\* sequential runs with eviction out of play: a lookup returns the value of the latest successful set
ReadsLastSet(s, e) ==
    e.e = "obs" /\ e.api = "get" /\ e.p \in DOMAIN s.cur /\ Has(s.cur[e.p], "key") /\ s.cur[e.p].key \in DOMAIN s.lastset
        /\ Get(s.lastok, e.p, FALSE)
        \* (a lookup that was itself hit by the fault may report a miss: a stale handle means "gone", by design)
        /\ ~(e.p \in DOMAIN s.faulted /\ Has(e, "opi") /\ s.faulted[e.p] = e.opi) =>
        Has(e, "handle") /\ Has(e.handle.c, "val") /\
            \* ... or of a later set that reported an error: a failed write may or may not have taken effect
            (e.handle.c.val = s.lastset[s.cur[e.p].key] \/ e.handle.c.val \in Get(s.maybeset, s.cur[e.p].key, {}))
NoLeak(cfg, s, e) ==
    e.e = "ret" /\ ~(Has(e, "world") /\ e.world) =>
        \A d \in DOMAIN s.fs.ents : IsKismetTemp(cfg, d) =>
            \A n \in DOMAIN s.fs.ents[d] :
                s.fs.ents[d][n] \in Get(s.created, e.p, {}) => s.fs.ents[d][n] \in Get(s.unlinkfailed, e.p, {})

\* ---- C13 / C14: the stacked cache does what Stack.tla says (sequential matrix points)
\* cfg.sw: the world of Stack.tla plus [key, wroot, wtags: level of each writer tag]
LevelOfTag(sw, t) == IF t = sw.tagw THEN 0 ELSE IF t = sw.tagp THEN 99 ELSE t - sw.tagr
ValOf(c) == IF Has(c, "val") THEN c.val ELSE "?"
WPost(cfg, s) ==
    LET sw == cfg.sw
        ds == {d \in DOMAIN s.fs.ents : IsWCacheDir(cfg, d) /\ sw.key \in DOMAIN s.fs.ents[d]}
    IN IF ds = {} THEN "none"
       ELSE IF Cardinality(ds) > 1 THEN "DUP"
       ELSE LET d == CHOOSE x \in ds : TRUE IN ValOf(s.fs.inos[s.fs.ents[d][sw.key]].c)
StackObs(cfg, s, r, e) ==
    [out |-> IF r.panic THEN "panic" ELSE IF r.ok THEN "ok" ELSE "err",
     res |-> IF ~r.ok THEN "" ELSE IF r.res = "some" THEN (IF Has(e, "handle") THEN ValOf(e.handle.c) ELSE "?") ELSE r.res,
     hit |-> IF Has(r, "judge") THEN r.judge.hit ELSE "none",
     seen |-> IF Has(r, "judge") THEN ValOf(r.judge.c) ELSE "",
     wpost |-> WPost(cfg, s),
     pairs |-> IF Has(r, "checks") THEN {<<LevelOfTag(cfg.sw, r.checks[i][1].w), LevelOfTag(cfg.sw, r.checks[i][2].w)>> : i \in 1..Len(r.checks)} ELSE {},
     kind |-> IF Has(r, "kind") THEN r.kind ELSE ""]
\* C14, last sentence: with no checker configured, levels after the one that served a lookup are not consulted
LevelOfDir(cfg, d) ==      \* 0 = write cache, i = i-th read-only level (cfg.roots lists the write root first when there is one)
    LET hasw == cfg.sw.writer # "none"
        idx == CHOOSE i \in 1..Len(cfg.roots) : Under(d, cfg.roots[i].id)
    IN IF hasw THEN idx - 1 ELSE idx
NoLaterLookups(cfg, s, e) ==
    e.e = "ret" /\ Has(cfg, "sw") /\ cfg.sw.checker = "none" /\ cfg.sw.op \in {"get", "touch"} /\ e.p = 1 /\ e.ok
        /\ e.res \in {"some", "true"} /\ e.p \in DOMAIN s.opens =>
        LET sw == cfg.sw
            hit == IF sw.writer # "none" /\ sw.w # "none" THEN 0 ELSE CHOOSE i \in 1..Len(sw.rs) : sw.rs[i] # "none" /\ \A j \in 1..(i - 1) : sw.rs[j] = "none"
        IN \A d \in DOMAIN s.opens[e.p] : (\E i \in 1..Len(cfg.roots) : Under(d, cfg.roots[i].id)) => LevelOfDir(cfg, d) <= hit

\* C13: touch marks the first copy found -- and only that one
TouchMarksFirstOnly(cfg, s, e) ==
    e.e = "ret" /\ Has(cfg, "sw") /\ cfg.sw.op = "touch" /\ e.p = 1 /\ e.ok /\ e.p \in DOMAIN s.atcall =>
        LET sw == cfg.sw pre == s.atcall[e.p]
            hit == IF sw.writer # "none" /\ sw.w # "none" THEN 0
                   ELSE IF \E i \in 1..Len(sw.rs) : sw.rs[i] # "none" THEN CHOOSE i \in 1..Len(sw.rs) : sw.rs[i] # "none" /\ \A j \in 1..(i - 1) : sw.rs[j] = "none"
                   ELSE 100
        IN \A d \in DOMAIN pre.ents : (\E i \in 1..Len(cfg.roots) : Under(d, cfg.roots[i].id)) /\ LevelOfDir(cfg, d) > hit =>
              \A n \in DOMAIN pre.ents[d] : LET i == pre.ents[d][n] IN
                  i # "DIR" /\ i \in DOMAIN pre.inos /\ i \in DOMAIN s.fs.inos => s.fs.inos[i].at = pre.inos[i].at

StackOK(cfg, s, e) ==
    e.e = "obs" /\ Has(cfg, "sw") /\ e.p = 1 /\ e.p \in DOMAIN s.lastret =>
        ObservedOK(cfg.sw, StackObs(cfg, s, s.lastret[e.p], e))

\* ---- C09 / C11: sequential histories against the abstract key-value map and queue
\* (monitors for runs in which one participant at a time operates: cfg.seq)
KeyDirs(cfg, fs, k) == {d \in DOMAIN fs.ents : IsWCacheDir(cfg, d) /\ k \in DOMAIN fs.ents[d] /\ fs.ents[d][k] # "DIR"}
KeyIno(cfg, fs, k) == LET d == CHOOSE x \in KeyDirs(cfg, fs, k) : TRUE IN fs.inos[fs.ents[d][k]]
PresentKeys(cfg, fs) == UNION {{n \in DOMAIN fs.ents[d] : IsKeyName(n) /\ fs.ents[d][n] # "DIR"} : d \in {x \in DOMAIN fs.ents : IsWCacheDir(cfg, x)}}
\* C11: a sharded cache never holds two copies of one key
IsSeq(cfg) == Has(cfg, "seq") /\ cfg.seq
\* (sequential use only: the documentation allows two copies after concurrent writes to a sharded cache)
OneCopy(cfg, s) == IsSeq(cfg) => \A k \in PresentKeys(cfg, s.fs) : Cardinality(KeyDirs(cfg, s.fs, k)) <= 1
\* C11: lookups return what the simple map predicts
SeqMapOK(cfg, s, e) ==
    IsSeq(cfg) /\ e.e = "obs" /\ e.p \in DOMAIN s.cur /\ Has(s.cur[e.p], "key") /\ e.api \in {"get", "touch"} /\ Get(s.lastok, e.p, FALSE) =>
        LET k == s.cur[e.p].key r == s.lastret[e.p] IN
        IF k \in DOMAIN s.absmap THEN
            IF e.api = "get" THEN r.res = "some" /\ Has(e, "handle") /\ Has(e.handle.c, "val") /\ (e.handle.c.val = s.absmap[k] \/ s.absmap[k] = "?")
            ELSE r.res = "true"
        ELSE IF Has(cfg, "rokeys") /\ k \in SeqSet(cfg.rokeys) THEN TRUE
        ELSE r.res \in {"none", "false"}
\* C11 (sequential use; whatever the files contain -- an empty file is a value like any other): a lookup of a key that the write cache
\* holds returns the write cache's file, never a copy from a read-only level
WriteSideFirst(cfg, s, e) ==
    IsSeq(cfg) /\ e.e = "obs" /\ e.api = "get" /\ Has(e, "handle") /\ e.p \in DOMAIN s.cur /\ Has(s.cur[e.p], "key") =>
        LET k == s.cur[e.p].key
            ws == {s.fs.ents[d][k] : d \in {x \in DOMAIN s.fs.ents : IsWCacheDir(cfg, x) /\ k \in DOMAIN s.fs.ents[x]}}
        IN ws # {} => HandleInode(s, e) \in ws
\* C11: an entry disappears only in an operation that ran maintenance (whose choice PruneOK judges)
UnexplainedLoss(cfg, s, e, s2) ==
    IsSeq(cfg) /\ e.e = "ret" /\ ~(Has(e, "world") /\ e.world) =>
        \A k \in DOMAIN s.absmap : k \notin PresentKeys(cfg, s.fs) => Get(s.pruned, e.p, FALSE)
\* C11: a successful set / put consumes its source
SrcConsumed(e) == e.e = "ret" /\ e.ok /\ e.api \in {"set", "put"} /\ Has(e, "src_exists") => ~e.src_exists
\* C09: reads mark without reordering; writes enqueue fresh
Marked(i) == TLe(i.mt, i.at)
ReadMarks(cfg, s, e) ==
    IsSeq(cfg) /\ e.e = "ret" /\ e.ok /\ e.p \in DOMAIN s.cur /\ Has(s.cur[e.p], "key") /\ e.p \in DOMAIN s.atcall =>
        LET k == s.cur[e.p].key pre == s.atcall[e.p]
            hitop == (e.api = "get" /\ e.res = "some") \/ (e.api = "touch" /\ e.res = "true")
                     \/ (e.api \in {"put", "put_tf"} /\ KeyDirs(cfg, pre, k) # {})
        IN hitop /\ KeyDirs(cfg, pre, k) # {} /\ KeyDirs(cfg, s.fs, k) # {} /\ ~Get(s.pruned, e.p, FALSE) =>
            LET a == KeyIno(cfg, pre, k) b == KeyIno(cfg, s.fs, k) IN
            /\ Marked(b)                                  \* the next maintenance sees it as recently used
            /\ b.mt = a.mt /\ b.c = a.c /\ b.mode = a.mode  \* queue position and content unchanged
FreshOnWrite(cfg, s, e) ==
    IsSeq(cfg) /\ e.e = "ret" /\ e.ok /\ e.p \in DOMAIN s.cur /\ Has(s.cur[e.p], "key") /\ e.p \in DOMAIN s.atcall =>
        LET k == s.cur[e.p].key pre == s.atcall[e.p]
            inserts == e.api \in {"set", "set_tf"} \/ (e.api \in {"put", "put_tf"} /\ KeyDirs(cfg, pre, k) = {})
        IN inserts /\ KeyDirs(cfg, s.fs, k) # {} =>
            LET d == CHOOSE x \in KeyDirs(cfg, s.fs, k) : TRUE
                b == KeyIno(cfg, s.fs, k) IN
            /\ ~Marked(b)                                                                     \* not marked as used
            /\ \A n \in EntryNames(s.fs, d) : TLe(InoAt(s.fs, d, n).mt, b.mt)                \* newest queue position

\* ---- C19: modes
Mode0444(cfg, s, e) ==
    Publishes(cfg, e) /\ e.api \in {"ensure", "gou", "set_tf", "put_tf"} =>
        LET i == Lookup(s.fs, e.path) IN i \in DOMAIN s.fs.inos => s.fs.inos[i].mode = 292

\* ---- C20: descriptors
LibFds(s, p) == Get(s.opfds, p, {})
FdBound(cfg, s, p) == Cardinality(LibFds(s, p)) <= (IF Has(cfg, "checker") /\ cfg.checker # "none" THEN 3 ELSE 2)
NoResidue(s, e) ==
    e.e = "ret" /\ ~(Has(e, "world") /\ e.world) =>
        Cardinality(LibFds(s, e.p)) <= (IF e.res = "some" THEN 1 ELSE 0)
OpenAttempts(s, p, d) == Get(Get(s.opens, p, <<>>), d, 0)
TwoOpensPerDir(s, e) ==
    e.e = "ret" /\ e.api \in {"get", "touch"} /\ e.p \in DOMAIN s.opens =>
        \A d \in DOMAIN s.opens[e.p] : s.opens[e.p][d] <= 2

=============================================================================
