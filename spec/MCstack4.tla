---- MODULE MCstack4 ----
(* Stacked cache, writes staged outside the cache: set || put_temp_file;get on one key, ensure racing a set_temp_file; *)
(* auto_sync: nothing unsynced is ever published (StepDurableFirst), set overwrites and put never does.               *)
EXTENDS Kismet
MCProcs == {1, 2}
MCProg == (1 :> <<[api |-> "set", key |-> "k", val |-> "a", chunks |-> 1], [api |-> "ensure", key |-> "k2", val |-> "c", chunks |-> 1]>>) @@
          (2 :> <<[api |-> "put_tf", key |-> "k", val |-> "b", chunks |-> 1], [api |-> "set_tf", key |-> "k2", val |-> "d", chunks |-> 1]>>)
MCPre == {}
MCPreRO == {[key |-> "k", val |-> "ro"]}
NoDebris == {}
NoKeyShards == <<>>
====
