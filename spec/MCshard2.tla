---- MODULE MCshard2 ----
(* Sharded root (2 shards), 2 participants with their own load estimates: a writer whose key has the two candidates *)
(* (0,1) racing a writer/reader of a key with candidates (1,0); the trigger is nondeterministic, so every combination *)
(* of "own shard maintained / temp dir cleaned / other shard maintained" is explored.                               *)
EXTENDS Kismet
MCProcs == {1, 2}
MCProg == (1 :> <<[api |-> "set", key |-> "k1", val |-> "a", chunks |-> 1]>>) @@
          (2 :> <<[api |-> "put", key |-> "k2", val |-> "b", chunks |-> 1], [api |-> "get", key |-> "k1", val |-> "", chunks |-> 0]>>)
MCPre == {[key |-> "k1", val |-> "o1"]}
MCKeyShards == ("k1" :> <<0, 1>>) @@ ("k2" :> <<1, 0>>)
NoDebris == {}
NoPreRO == {}
====
