----------------------------- MODULE MCshardmap -----------------------------
(* Design-level facts about ShardMap.tla: the repository's own pinned vector, range and distinctness over a grid. *)
EXTENDS ShardMap, FiniteSets
VARIABLE v
Bytes == {0, 128, 255}
Init == v \in [h : {<<a, 0, 0, 0, 0, 0, 0, b>> : a \in Bytes, b \in Bytes}, s : {<<a, 0, 0, 0, 0, 0, 0, b>> : a \in Bytes, b \in Bytes},
               n : {0, 1, 2, 3, 7, 64, 255, 256, 257, 4096, 65537}]
Next == UNCHANGED v
RangeOK == IdsOK(v.h, v.s, v.n)
NamesOK == DirName(0) = ".kismet_0000" /\ DirName(255) = ".kismet_00ff" /\ DirName(65536) = ".kismet_10000" /\ DirName(4095) = ".kismet_0fff"
\* multiplicative_hash.rs test_map / the strace-observed placement of Key("k", 1, 2) on two shards: primary .kismet_0000, secondary .kismet_0001
Pinned == Ids(<<1, 0, 0, 0, 0, 0, 0, 0>>, <<2, 0, 0, 0, 0, 0, 0, 0>>, 2) = <<0, 1>>
=============================================================================
