------------------------------- MODULE TraceRes -------------------------------
(***************************************************************************)
(* C20: per-operation resource use, judged on recorded system-call traces.  *)
(* One run issues the same operations against directories pre-filled with  *)
(* 0, 10, 100 and 2000 entries (maintenance never fires).  For every        *)
(* operation the vector  call name -> number of library-phase calls  must   *)
(* be identical across the sizes (ConstantCalls); at most two files or      *)
(* directory streams are open at once (three with a checker) (FdBound);     *)
(* nothing but the returned handle stays open (NoResidue, cross-checked     *)
(* against /proc/self/fd by the actor: ProcFdAgree); a lookup makes at most *)
(* two open attempts per directory (TwoOpensPerDir); no lock is taken and   *)
(* no file is created outside .kismet_temp (NoLocks).                       *)
(***************************************************************************)
EXTENDS Naturals, Sequences, FiniteSets, Json, IOUtils, TLC, SequencesExt

Rec == ndJsonDeserialize(IOEnv.TRACE)
Has(r, f) == f \in DOMAIN r
Get(f, k, d) == IF k \in DOMAIN f THEN f[k] ELSE d
Put(f, k, v) == (k :> v) @@ f
Suffix(s, k) == IF Len(s) >= k THEN SubSeq(s, Len(s) - k + 1, Len(s)) ELSE ""

VARIABLES l, st

Fresh(e) == [job |-> e.job, run |-> e.run, checker |-> IF Has(e.cfg, "checker") THEN e.cfg.checker ELSE "none",
             cur |-> <<>>, vec |-> <<>>, fds |-> {}, peak |-> 0, opens |-> <<>>, base |-> <<>>, viol |-> {}, nops |-> 0, lastret |-> <<>>, inj |-> FALSE]
InLib(e) == e.ph \in {"lib", "cb"}
\* first component of a directory id ("D10/.kismet_0001" -> "D10")
RootOf(d) == LET cut == {i \in 1..Len(d) : SubSeq(d, i, i) = "/"} IN
             IF cut = {} THEN d ELSE SubSeq(d, 1, (CHOOSE i \in cut : \A j \in cut : i <= j) - 1)
PrivDir(d) == Suffix(d, 12) = ".kismet_temp" \/ d = "SRC" \/ d = "TMP"

Step(s, e) ==
    IF e.e = "call" /\ e.p = 1 /\ ~e.world THEN [s EXCEPT !.cur = e, !.vec = <<>>, !.fds = {}, !.peak = 0, !.opens = <<>>, !.inj = FALSE]
    ELSE IF e.e = "sys" /\ e.p = 1 /\ InLib(e) /\ Has(s.cur, "grp") THEN
        LET vec2 == Put(s.vec, e.call, Get(s.vec, e.call, 0) + 1)
            fds2 == IF e.call = "open" /\ e.res = "ok" THEN s.fds \cup {e.fd}
                    ELSE IF e.call = "close" THEN s.fds \ {e.fd} ELSE s.fds
            \* open attempts are counted per cache directory = per root (a sharded root is ONE cache directory: one attempt per candidate shard)
            opens2 == IF e.call = "open" /\ Has(e, "path") THEN Put(s.opens, RootOf(e.path.d), Get(s.opens, RootOf(e.path.d), 0) + 1) ELSE s.opens
            limit == IF s.checker = "none" THEN 2 ELSE 3
            v1 == IF Cardinality(fds2) > limit THEN {<<e.seq, "FdBound">>} ELSE {}
            v2 == IF e.call = "lock" THEN {<<e.seq, "NoLocks">>} ELSE {}
            \* creating a named file anywhere but in a temporary directory (an O_TMPFILE open creates an anonymous file *inside* its directory)
            istmp == Has(e, "flags") /\ \E i \in 1..Len(e.flags) : e.flags[i] = "TMPFILE"
            cdir == IF istmp THEN e.path.d \o "/" \o e.path.n ELSE e.path.d
            v3 == IF e.call = "open" /\ e.res = "ok" /\ Has(e, "cmode") /\ Has(e, "path") /\ ~PrivDir(cdir) /\ e.path.d # "OUTSIDE"
                  THEN {<<e.seq, "NoLocks">>} ELSE {}
        IN [s EXCEPT !.vec = vec2, !.fds = fds2, !.opens = opens2, !.viol = @ \cup v1 \cup v2 \cup v3, !.inj = @ \/ Has(e, "inj")]
    ELSE IF e.e = "ret" /\ e.p = 1 /\ Has(s.cur, "grp") /\ ~(Has(e, "world") /\ e.world) THEN
        LET g == s.cur.grp
            v1 == IF g \in DOMAIN s.base /\ s.base[g] # s.vec THEN {<<e.seq, "ConstantCalls">>} ELSE {}
            v2 == IF Cardinality(s.fds) > (IF e.res = "some" THEN 1 ELSE 0) THEN {<<e.seq, "NoResidue">>} ELSE {}
            v3 == IF s.cur.api \in {"get", "touch"} /\ \E d \in DOMAIN s.opens : s.opens[d] > 2 THEN {<<e.seq, "TwoOpensPerDir">>} ELSE {}
            \* (an operation hit by an injected failure may report it; the descriptor bounds hold on its error path all the same)
            v4 == IF (e.ok /\ ~e.panic) \/ s.inj THEN {} ELSE {<<e.seq, "OpOK">>}
        IN [s EXCEPT !.base = IF g \in DOMAIN s.base THEN @ ELSE Put(@, g, s.vec), !.viol = @ \cup v1 \cup v2 \cup v3 \cup v4,
                     !.nops = @ + 1, !.lastret = e]
    ELSE IF e.e = "obs" /\ e.p = 1 /\ Has(s.cur, "grp") /\ Has(e, "openfds") THEN
        [s EXCEPT !.viol = @ \cup (IF e.openfds # 0 THEN {<<e.seq, "ProcFdAgree">>} ELSE {})]
    ELSE s

Init == l = 1 /\ st = Fresh([job |-> "", run |-> 0, cfg |-> <<>>])
Next ==
    /\ l <= Len(Rec)
    /\ l' = l + 1
    /\ LET e == Rec[l] IN
       IF e.e = "reset" THEN st' = Fresh(e)
       ELSE IF e.e = "endrun" THEN
            /\ (st.viol # {} => PrintT(<<"VERDICT", ToJson([job |-> st.job, run |-> st.run, viol |-> st.viol, fsmis |-> {}])>>))
            /\ PrintT(<<"CONF", ToJson([job |-> st.job, run |-> st.run, ops |-> st.nops, groups |-> Cardinality(DOMAIN st.base), drift |-> <<>>])>>)
            /\ UNCHANGED st
       ELSE st' = Step(st, e)
Spec == Init /\ [][Next]_<<l, st>>

Accepted ==
    /\ PrintT(<<"TRACE-END", TLCGet("stats").diameter - 1, Len(Rec)>>)
    /\ TLCGet("stats").diameter - 1 = Len(Rec)
=============================================================================
