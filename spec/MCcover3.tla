---- MODULE MCcover3 ----
(* Edge-coverage configuration: sharded root, shard directories absent or present, keys with swapped candidates. *)
EXTENDS Kismet, Json
ASSUME CoverInit
CoverPost == PrintT(<<"COVER", ToJson(TLCGet(7))>>)
MCProcs == {1, 2}
MCProg == (1 :> <<[api |-> "set", key |-> "k1", val |-> "a", chunks |-> 1], [api |-> "get", key |-> "k2", val |-> "", chunks |-> 0],
                  [api |-> "put", key |-> "k3", val |-> "d", chunks |-> 1]>>) @@
          (2 :> <<[api |-> "put", key |-> "k2", val |-> "b", chunks |-> 1], [api |-> "touch", key |-> "k1", val |-> "", chunks |-> 0],
                  [api |-> "set", key |-> "k2", val |-> "c", chunks |-> 1]>>)
MCPre == {[key |-> "k3", val |-> "o3"]}
MCKeyShards == ("k1" :> <<0, 1>>) @@ ("k2" :> <<1, 0>>) @@ ("k3" :> <<1, 0>>)
NoDebris == {}
NoPreRO == {}
====
