\* MODULE MCSC
INIT Init
NEXT Next
CONSTANTS
  N = 4
  Ranks = {0, 1, 2, 3}
  CheckExact = FALSE
INVARIANTS PlanIsClock PlanSatisfies Structural
CHECK_DEADLOCK FALSE
