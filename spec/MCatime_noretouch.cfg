\* MODULE Atime
SPECIFICATION Spec
CONSTANTS
  Policy = "noatime"
  Gran = 1
  Delta = 4
  MaxT = 14
  ReTouch = FALSE
INVARIANTS MarkAfterUse FreshAfterInsert NoFalseMark
PROPERTIES UseKeepsRank
CHECK_DEADLOCK FALSE
