\* MODULE MCcover1
SPECIFICATION Spec
CONSTANTS
  Procs <- MCProcs
  Prog <- MCProg
  Cap = 1
  Maint = "nondet"
  DirsExist = TRUE
  Pre <- MCPre
  WriteFallback = FALSE
  CrashBudget = 0
  AdvBudget = 1
  Debris <- MCDebris
  PreRO <- NoPreRO
  FrontKind = "plain"
  KeyShards <- NoKeyShards
VIEW View
ACTION_CONSTRAINT CoverAC
POSTCONDITION CoverPost
INVARIANTS InvDirValid InvNoErr
CHECK_DEADLOCK FALSE
