---- MODULE MCstack6 ----
(* get_or_update with the judges Accept and Promote against a writer, maintenance firing at will on a cache of          *)
(* capacity 1: an accepted read-only hit is returned without a copy, a promoted one is copied with insert-if-absent.   *)
EXTENDS Kismet
MCProcs == {1, 2}
MCProg == (1 :> <<[api |-> "gou", key |-> "k2", val |-> "a", chunks |-> 1, judge |-> "accept"],
                  [api |-> "gou", key |-> "k2", val |-> "c", chunks |-> 1, judge |-> "promote"]>>) @@
          (2 :> <<[api |-> "gou", key |-> "k", val |-> "b", chunks |-> 1, judge |-> "replace"], [api |-> "get", key |-> "k2", val |-> "", chunks |-> 0]>>)
MCPre == {[key |-> "k", val |-> "old"]}
MCPreRO == {[key |-> "k2", val |-> "ro"]}
NoDebris == {}
NoKeyShards == <<>>
====
