\* MODULE MCcover3
SPECIFICATION Spec
CONSTANTS
  Procs <- MCProcs
  Prog <- MCProg
  Cap = 1
  Maint = "nondet"
  DirsExist = TRUE
  Pre <- MCPre
  WriteFallback = FALSE
  CrashBudget = 0
  AdvBudget = 1
  Debris <- NoDebris
  PreRO <- NoPreRO
  FrontKind = "sharded"
  KeyShards <- MCKeyShards
  FaultBudget = 0
VIEW View
ACTION_CONSTRAINT CoverAC
POSTCONDITION CoverPost
INVARIANTS InvDirValid InvNoErr
CHECK_DEADLOCK FALSE
