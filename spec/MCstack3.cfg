\* MODULE MCstack3
SPECIFICATION Spec
CONSTANTS
  Procs <- MCProcs
  Prog <- MCProg
  Cap = 100
  Maint = "never"
  DirsExist = TRUE
  Pre <- MCPre
  WriteFallback = FALSE
  CrashBudget = 1
  AdvBudget = 0
  Debris <- NoDebris
  PreRO <- MCPreRO
  FrontKind = "stack"
  KeyShards <- NoKeyShards
  FaultBudget = 0
VIEW View
INVARIANTS InvDirValid InvDebris InvHandle InvNoErr InvFdBound InvNoResidue
PROPERTIES StepImmutable StepReadOnlyFirst StepRemoval StepDurableFirst StepROUntouched
CHECK_DEADLOCK FALSE
