\* MODULE MCfault1
SPECIFICATION Spec
CONSTANTS
  Procs <- MCProcs
  Prog <- MCProg
  Cap = 2
  Maint = "always"
  DirsExist = TRUE
  Pre <- MCPre
  WriteFallback = FALSE
  CrashBudget = 0
  AdvBudget = 0
  Debris <- MCDebris
  PreRO <- NoPreRO
  FrontKind = "plain"
  KeyShards <- NoKeyShards
  FaultBudget = 1
VIEW View
INVARIANTS InvDirValid InvHandle InvNoLeak InvFaultReported InvErrOnlyIfFaulted InvFdBound InvNoResidue
PROPERTIES StepImmutable StepReadOnlyFirst StepRemoval
CHECK_DEADLOCK FALSE
