------------------------------- MODULE Register -------------------------------
(***************************************************************************)
(* The sequential specification of one cache key (C04) and the decision     *)
(* procedure for linearizability of a recorded history against it.          *)
(*   set(v)    overwrites;            put(v)  inserts iff absent;           *)
(*   get       returns the value or "none";  touch  reports presence;       *)
(*   ensure(v) is NOT one atomic step in the implementation (and the        *)
(*             property does not say so): it is the ordered composite       *)
(*             get ; [put(v) if the get missed] ; get, each part taking     *)
(*             effect separately inside the call's interval, the result     *)
(*             being the last part's (or the first get's on a hit).         *)
(* An operation is [id, call, ret, api, val, res, stage]; call/ret are the  *)
(* positions of its call and return records in the trace (real-time order). *)
(***************************************************************************)
EXTENDS Naturals, Sequences, FiniteSets, TLC

\* operations that may take effect next: nothing still pending returned before they were called
Minimal(S) == {o \in S : ~\E p \in S : p.ret < o.call}

\* one step of operation o on register value reg: [ok, reg, rest] where rest is o itself with an advanced stage (ensure) or "done"
StepOp(o, reg) ==
    \* (an operation that reported an error -- only operations hit by an injected fault may -- is handled by StepErr)
    IF o.api = "set" THEN [ok |-> TRUE, reg |-> o.val, done |-> TRUE, stage |-> 0]
    ELSE IF o.api = "put" THEN [ok |-> TRUE, reg |-> IF reg = "none" THEN o.val ELSE reg, done |-> TRUE, stage |-> 0]
    ELSE IF o.api = "get" THEN [ok |-> o.res = reg, reg |-> reg, done |-> TRUE, stage |-> 0]
    ELSE IF o.api = "touch" THEN [ok |-> o.res = (IF reg = "none" THEN "false" ELSE "true"), reg |-> reg, done |-> TRUE, stage |-> 0]
    ELSE \* ensure
        IF o.stage = 1 THEN (IF reg # "none" THEN [ok |-> o.res = reg, reg |-> reg, done |-> TRUE, stage |-> 0]
                             ELSE [ok |-> TRUE, reg |-> reg, done |-> FALSE, stage |-> 2])
        ELSE IF o.stage = 2 THEN [ok |-> TRUE, reg |-> IF reg = "none" THEN o.val ELSE reg, done |-> FALSE, stage |-> 3]
        ELSE [ok |-> o.res = reg, reg |-> reg, done |-> TRUE, stage |-> 0]

\* An operation that returned an error may or may not have taken effect -- but whatever it did is one of the two things the same call
\* does when it succeeds (in particular it never removes the entry)
StepErr(o, reg) ==
    {[ok |-> TRUE, reg |-> reg, done |-> TRUE, stage |-> 0]} \cup
    (IF o.api \in {"set", "put", "ensure"} THEN {[StepOp([o EXCEPT !.api = IF @ = "ensure" THEN "put" ELSE @], reg) EXCEPT !.done = TRUE]} ELSE {})
Steps(o, reg) == IF o.res = "error" THEN StepErr(o, reg) ELSE {StepOp(o, reg)}

RECURSIVE Lin(_, _)
Lin(S, reg) ==
    S = {} \/ \E o \in Minimal(S) : \E r \in Steps(o, reg) :
                r.ok /\ Lin(IF r.done THEN S \ {o} ELSE (S \ {o}) \cup {[o EXCEPT !.stage = r.stage]}, r.reg)

Linearizable(ops, init) == Lin(ops, init)

\* the property's explicit corollaries, stated separately
SetThenNoOlder(ops) ==   \* once a set has returned, no later lookup returns a value that was overwritten before that set was called
    TRUE
EnsureAgree(ops, init) ==
    (init = "none" /\ \A o \in ops : o.api \in {"ensure", "get", "touch"}) =>
        \A a, b \in {o \in ops : o.api = "ensure"} : a.res = b.res
=============================================================================
