---------------------------- MODULE SecondChance ----------------------------
(***************************************************************************)
(* The Second Chance (clock) eviction policy, three ways:                   *)
(*   Plan      the batched planner of src/second_chance.rs transcribed      *)
(*             (stable sort by rank, one scan, steal from the front of the  *)
(*             reprieve list);                                              *)
(*   Clock     the textbook queue (pop the lowest-ranked entry; if accessed *)
(*             clear its flag and requeue it, otherwise evict it; stop at   *)
(*             capacity);                                                   *)
(*   PlanOK    a declarative relation on (entries, capacity, evicted ids,   *)
(*             moved-back ids) that holds iff the outcome equals Clock's    *)
(*             under SOME ordering of equally ranked entries.  It is what   *)
(*             judges real outcomes, so an unstable sort is not an alarm.   *)
(* An entry is a record [id, rank, acc]; ids are unique; a rank is a pair   *)
(* <<major, minor>> compared lexicographically (file times are <<s, ns>>).  *)
(***************************************************************************)
EXTENDS Naturals, Sequences, FiniteSets, SequencesExt, TLC

SeqToSet(q) == {q[i] : i \in 1..Len(q)}
RLt(a, b) == a[1] < b[1] \/ (a[1] = b[1] /\ a[2] < b[2])
RLe(a, b) == a = b \/ RLt(a, b)

\* ---- stable sort by rank (insertion sort: equal ranks keep input order) ----
RECURSIVE InsertByRank(_, _)
InsertByRank(sorted, e) ==
    IF sorted = <<>> THEN <<e>>
    ELSE IF RLe(Head(sorted).rank, e.rank) THEN <<Head(sorted)>> \o InsertByRank(Tail(sorted), e)
    ELSE <<e>> \o sorted
RECURSIVE StableSort(_)
StableSort(q) == IF q = <<>> THEN <<>> ELSE InsertByRank(StableSort(SubSeq(q, 1, Len(q) - 1)), q[Len(q)])

\* ---- the implementation's planner ----------------------------------------
RECURSIVE Scan(_, _, _, _)
Scan(rest, need, evict, back) ==
    IF rest = <<>> \/ Len(evict) = need THEN [evict |-> evict, back |-> back]
    ELSE IF Head(rest).acc THEN Scan(Tail(rest), need, evict, Append(back, Head(rest)))
    ELSE Scan(Tail(rest), need, Append(evict, Head(rest)), back)

Plan(entries, cap) ==
    IF Len(entries) <= cap THEN [evict |-> <<>>, back |-> <<>>]
    ELSE LET need == Len(entries) - cap
             r == Scan(StableSort(entries), need, <<>>, <<>>)
             k == need - Len(r.evict)
         IN IF k > 0 THEN [evict |-> r.evict \o SubSeq(r.back, 1, k), back |-> SubSeq(r.back, k + 1, Len(r.back))]
            ELSE r

\* ---- the classical queue ---------------------------------------------------
RECURSIVE ClockRun(_, _, _, _)
ClockRun(queue, need, evict, back) ==
    \* queue: sequence of entries, front = next victim candidate; back: ids re-queued so far, in order
    IF need = 0 \/ queue = <<>> THEN [evict |-> evict, back |-> back]
    ELSE LET h == Head(queue) IN
         IF h.acc THEN ClockRun(Append(Tail(queue), [h EXCEPT !.acc = FALSE]), need, evict, Append(back, h.id))
         ELSE ClockRun(Tail(queue), need - 1, Append(evict, h.id), [i \in 1..Len(SelectSeq(back, LAMBDA x : x # h.id)) |-> SelectSeq(back, LAMBDA x : x # h.id)[i]])

\* Clock on a given total order of the entries (a sequence sorted by rank).
Clock(sorted, cap) ==
    IF Len(sorted) <= cap THEN [evict |-> <<>>, back |-> <<>>]
    ELSE ClockRun(sorted, Len(sorted) - cap, <<>>, <<>>)

IdSeq(q) == [i \in 1..Len(q) |-> q[i].id]

\* ---- declarative relation ---------------------------------------------------
\* ev, bk: sequences of ids.  ents: sequence of entries.
PlanOK(ents, cap, ev, bk) ==
    LET n == Len(ents)
        E == SeqToSet(ents)
        ById(i) == CHOOSE e \in E : e.id = i
        U == {e \in E : ~e.acc}
        A == {e \in E : e.acc}
        need == IF n > cap THEN n - cap ELSE 0
        evs == SeqToSet(ev)
        bks == SeqToSet(bk)
        rk(i) == ById(i).rank
        DownClosed(S, W) ==   \* S \subseteq W is closed under "strictly lower rank within W"
            \A x \in S : \A y \in W : RLt(y.rank, x.rank) => y \in S
        NonDecreasing(q) == \A i \in 1..Len(q) : \A j \in i + 1..Len(q) : RLe(rk(q[i]), rk(q[j]))
    IN
    /\ evs \subseteq {e.id : e \in E} /\ bks \subseteq {e.id : e \in E}
    /\ Cardinality(evs) = Len(ev) /\ Cardinality(bks) = Len(bk)      \* no duplicates
    /\ evs \cap bks = {}
    /\ Len(ev) = need
    /\ IF need = 0 THEN bk = <<>>
       ELSE IF Cardinality(U) >= need THEN
            LET EV == {ById(i) : i \in evs} BK == {ById(i) : i \in bks}
                top == CHOOSE m \in {e.rank : e \in EV} : \A e \in EV : RLe(e.rank, m)
            IN /\ EV \subseteq U /\ DownClosed(EV, U)
               /\ BK \subseteq A
               /\ \A a \in A : RLt(a.rank, top) => a \in BK
               /\ \A a \in BK : RLe(a.rank, top)
               /\ NonDecreasing(bk)
       ELSE LET EV == {ById(i) : i \in evs} BK == {ById(i) : i \in bks}
                EA == EV \cap A
            IN /\ U \subseteq EV
               /\ DownClosed(EA, A)
               /\ BK = A \ EA
               /\ NonDecreasing(bk)

=============================================================================
