\* MODULE MCstack
INIT Init
NEXT Next
INVARIANTS FirstCopyWins AcceptChangesNothing PromoteCopies ReplaceStores MissStores UnsupportedWithoutWriter HitKind CheckerSeesAll PutNeverOverwrites
CHECK_DEADLOCK FALSE
