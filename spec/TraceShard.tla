----------------------------- MODULE TraceShard -----------------------------
(***************************************************************************)
(* C12 on the real code: for every vector (hash, secondary hash, shard      *)
(* count) a fresh handle looks the key up in an empty directory (the two    *)
(* probed paths, in order, are recorded by the tracer), a fresh handle puts *)
(* it (where did the file land), and handles with other load estimates read *)
(* it back.  Judged against ShardMap!Ids / DirName.                         *)
(* The vector travels in the `call` record: hl, sl (limbs), n, root, key.   *)
(***************************************************************************)
EXTENDS ShardMap, Json, IOUtils, FiniteSets

Rec == ndJsonDeserialize(IOEnv.TRACE)
Has(r, f) == f \in DOMAIN r

VARIABLES l, st

Fresh(e) == [job |-> e.job, run |-> e.run, cur |-> <<>>, opens |-> <<>>, landed |-> "", viol |-> {}, nvec |-> 0]
ExpDirs(c) == LET p == Ids(c.hl, c.sl, c.n) IN <<c.root \o "/" \o DirName(p[1]), c.root \o "/" \o DirName(p[2])>>

Step(s, e) ==
    IF e.e = "call" THEN [s EXCEPT !.cur = e, !.opens = <<>>, !.landed = ""]
    ELSE IF e.e = "sys" /\ Has(s.cur, "hl") /\ e.ph = "lib" /\ e.call = "open" /\ Has(e, "path") /\ e.path.n = s.cur.key THEN
        [s EXCEPT !.opens = Append(@, e.path.d)]
    ELSE IF e.e = "sys" /\ Has(s.cur, "hl") /\ e.ph = "lib" /\ e.call \in {"link", "rename"} /\ e.res = "ok" /\ e.path2.n = s.cur.key THEN
        [s EXCEPT !.landed = e.path2.d]
    ELSE IF e.e = "ret" /\ Has(s.cur, "hl") THEN
        LET c == s.cur ex == ExpDirs(c)
            v == IF ~IdsOK(c.hl, c.sl, c.n) THEN {"IdsOK"}
                 ELSE IF c.api = "get" /\ c.expect = "miss" THEN
                      (IF e.ok /\ e.res = "none" /\ s.opens = ex THEN {} ELSE {"ProbeOrder"})
                 ELSE IF c.api = "put" THEN
                      (IF e.ok /\ s.landed \in {ex[1], ex[2]} THEN {} ELSE {"StoredInCandidate"})
                 ELSE IF c.api = "get" /\ c.expect = "hit" THEN
                      (IF e.ok /\ e.res = "some" /\ Len(s.opens) >= 1 /\ s.opens[1] = ex[1]
                          /\ \A i \in 1..Len(s.opens) : s.opens[i] \in {ex[1], ex[2]} THEN {} ELSE {"FoundByOthers"})
                 ELSE IF c.api = "touch" /\ c.expect = "hit" THEN
                      (IF e.ok /\ e.res = "true" THEN {} ELSE {"FoundByOthers"})
                 ELSE {}
        IN [s EXCEPT !.viol = @ \cup {<<e.seq, m>> : m \in v}, !.nvec = @ + 1]
    ELSE s

Init == l = 1 /\ st = Fresh([job |-> "", run |-> 0])
Next ==
    /\ l <= Len(Rec)
    /\ l' = l + 1
    /\ LET e == Rec[l] IN
       IF e.e = "reset" THEN st' = Fresh(e)
       ELSE IF e.e = "endrun" THEN
            /\ (st.viol # {} => PrintT(<<"VERDICT", ToJson([job |-> st.job, run |-> st.run, viol |-> st.viol, fsmis |-> {}])>>))
            /\ PrintT(<<"CONF", ToJson([job |-> st.job, run |-> st.run, ops |-> st.nvec, drift |-> <<>>])>>)
            /\ UNCHANGED st
       ELSE st' = Step(st, e)
Spec == Init /\ [][Next]_<<l, st>>

Accepted ==
    /\ PrintT(<<"TRACE-END", TLCGet("stats").diameter - 1, Len(Rec)>>)
    /\ TLCGet("stats").diameter - 1 = Len(Rec)
=============================================================================
