---- MODULE MCplain2 ----
(* 2 participants x 2 operations on one key (set/put/get/touch), key present initially, no maintenance. *)
EXTENDS Kismet
MCProcs == {1, 2}
MCProg == (1 :> <<[api |-> "put", key |-> "k", val |-> "a", chunks |-> 2], [api |-> "touch", key |-> "k", val |-> "", chunks |-> 0]>>) @@
          (2 :> <<[api |-> "set", key |-> "k", val |-> "b", chunks |-> 1], [api |-> "get", key |-> "k", val |-> "", chunks |-> 0]>>)
MCPre == {[key |-> "k", val |-> "old"]}
NoDebris == {}
NoKeyShards == <<>>
NoPreRO == {}
====
