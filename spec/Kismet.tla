------------------------------- MODULE Kismet -------------------------------
(***************************************************************************)
(* The kismet-cache protocol on one cache root -- a plain directory or a    *)
(* sharded one -- structured like the code: ONE ACTION PER SYSTEM CALL, in  *)
(* the order the library issues them (src/cache_dir.rs, src/raw_cache.rs,   *)
(* src/plain.rs, src/sharded.rs, filetime, tempfile, std::fs), branch       *)
(* conditions exactly the code's.  Participants are independent processes   *)
(* (own handle, own trigger state, own load estimates) that share nothing   *)
(* but the filesystem.                                                      *)
(*                                                                         *)
(* The control flow is given once, as data:                                 *)
(*   NextCallL(p, l, lbl)   the call a participant with local state l       *)
(*                          issues at label lbl                             *)
(*   AfterL(p, l, lbl, c)   its next label/local state once call c (with    *)
(*                          its result) has completed                       *)
(* Kismet.tla's Next composes them with PosixFS!Pred/Eff; TraceKismet.tla   *)
(* uses them with the calls recorded from the real library, so a recorded   *)
(* execution is accepted iff it is a path through this model.               *)
(*                                                                         *)
(* Deliberate deviations from an idealised design are named:                *)
(*   StampBeforePublish  times/permissions are fixed on the private file    *)
(*   RetryWholePublish   any publish error => mkdir -p, whole publish again *)
(*   WriteFallback       filetime 0.2.29's path API re-opens O_WRONLY when  *)
(*                       the read-only open fails (TRUE = pinned tree;      *)
(*                       FALSE = after the C05 repair)                      *)
(*   EstimateWrongShard  the sharded write path updates the estimate of h1  *)
(*                       even when the file went to h2                      *)
(***************************************************************************)
EXTENDS Props, ShardMap

CONSTANTS Procs,          \* set of participants (integers)
          Prog,           \* Prog[p] : sequence of [api, key, val, chunks]
          Cap,            \* capacity of each cache directory (shard capacity for a sharded root)
          Maint,          \* "never" | "always" | "nondet": does the trigger fire on an event
          DirsExist,      \* do the directories (and their .kismet_temp) exist initially
          Pre,            \* set of [key, val]: entries present initially (in the key's primary directory)
          WriteFallback,  \* filetime path API behaviour (see above)
          CrashBudget,    \* how many participants may crash
          AdvBudget,      \* how many published files an outside party may delete
          Debris,         \* set of [name, age]: files lying in the first directory's .kismet_temp initially
          FrontKind,          \* "plain" | "sharded" | "stack" (plain write cache W + one plain read-only cache R1, auto_sync on)
          PreRO,          \* stack: set of [key, val] held by the read-only cache R1
          KeyShards,      \* sharded: [key -> <<primary, secondary>>] shard indices (0/1; two shards); plain: unused
          FaultBudget     \* how many library system calls may fail with an injected error (C18)

VARIABLES fs, clock, nino, pc, loc, aux, last

vars == <<fs, clock, nino, pc, loc, aux, last>>

Delta == 120
MaxAge == 3600
Root == "W"
NShards == 2
ShardDir(i) == Root \o "/" \o DirName(i)
BaseDirs == IF FrontKind \in {"plain", "stack"} THEN {Root} ELSE {ShardDir(i) : i \in 0..NShards - 1}
RORoot == "R1"
TDof(b) == b \o "/.kismet_temp"
\* path record of a directory id
PathOfDir(id) == IF id = Root THEN [d |-> ".", n |-> Root]
                 ELSE IF id = RORoot THEN [d |-> ".", n |-> RORoot]
                 ELSE IF IsTempDir(id) THEN [d |-> ParentOfTemp(id), n |-> ".kismet_temp"]
                 ELSE [d |-> Root, n |-> SubSeq(id, Len(Root) + 2, Len(id))]
\* the directories create_dir_all walks for `id`, deepest first
Chain(id) == IF id = Root THEN <<Root>>
             ELSE IF IsTempDir(id) THEN (IF ParentOfTemp(id) = Root THEN <<id, Root>> ELSE <<id, ParentOfTemp(id), Root>>)
             ELSE <<id, Root>>
PIn(b, n) == [d |-> b, n |-> n]
Tm(t) == <<t, 0>>
Cfg == IF FrontKind = "stack"
       THEN [roots |-> <<[id |-> Root, kind |-> "plain", role |-> "w"], [id |-> RORoot, kind |-> "plain", role |-> "ro"]>>, front |-> "stack", autosync |-> TRUE]
       ELSE [roots |-> <<[id |-> Root, kind |-> FrontKind, role |-> "w"]>>, front |-> FrontKind]

\* the key's two candidate directories, primary first
KeyDirsOf(k) == IF FrontKind = "plain" THEN <<Root, Root>>
                ELSE IF FrontKind = "stack" THEN <<Root, RORoot>>       \* the write cache first, then the read-only cache
                ELSE <<ShardDir(KeyShards[k][1]), ShardDir(KeyShards[k][2])>>
OtherShard(b) == IF b = ShardDir(0) THEN ShardDir(1) ELSE ShardDir(0)

Op(p) == loc[p].op
SetLike(api) == api \in {"set", "set_tf"}
TempFileApi(api) == api \in {"set_tf", "put_tf"}
StagedOutside(api) == FrontKind = "stack" /\ api \in {"set", "put", "set_tf", "put_tf"}
\* ensure(key, populate) is get_or_update(key, judge, populate) with the judge that always answers Promote
EnsureLike(api) == api \in {"ensure", "gou"}
JudgeOf(o) == IF o.api = "gou" THEN o.judge ELSE "promote"
SrcDir == "SRC"
TmpNameL(p, l) == "t" \o ToString(p) \o "x" \o ToString(l.opi)

\* ---- contents -------------------------------------------------------------
Content(key, val, w, of, upto) ==
    IF upto = 0 THEN EmptyContent
    ELSE [kind |-> "value", key |-> key, val |-> val, w |-> w, chunks |-> [i \in 1..upto |-> i], of |-> of, len |-> upto]

\* ---- initial state ----------------------------------------------------------
PreSeq == SetToSeq(Pre)
PreIno(i) == "i" \o ToString(i)
PreDir(e) == KeyDirsOf(e.key)[1]
FirstDir == IF FrontKind # "sharded" THEN Root ELSE ShardDir(0)
InitFS ==
    IF ~DirsExist THEN EmptyFS
    ELSE [ents |-> ("." :> ((Root :> "DIR") @@ (IF FrontKind = "stack" THEN (RORoot :> "DIR") @@ (SrcDir :> "DIR") ELSE <<>>))) @@
                   (IF FrontKind = "stack" THEN (SrcDir :> <<>>) ELSE <<>>) @@
                   (IF FrontKind = "stack" THEN (RORoot :> [k \in {e.key : e \in PreRO} |-> "ro" \o k]) ELSE <<>>) @@
                   (IF FrontKind # "sharded" THEN <<>> ELSE (Root :> [n \in {DirName(i) : i \in 0..NShards - 1} |-> "DIR"])) @@
                   [b \in BaseDirs |-> ((".kismet_temp" :> "DIR") @@
                        [k \in {PreSeq[i].key : i \in {j \in 1..Len(PreSeq) : PreDir(PreSeq[j]) = b}} |->
                            PreIno(CHOOSE i \in 1..Len(PreSeq) : PreSeq[i].key = k)])] @@
                   [t \in {TDof(b) : b \in BaseDirs} |->
                        IF t = TDof(FirstDir) THEN [n \in {d.name : d \in Debris} |-> "deb" \o n] ELSE <<>>],
          inos |-> (IF FrontKind = "stack"
                    THEN [x \in {"ro" \o e.key : e \in PreRO} |->
                            LET e == CHOOSE y \in PreRO : "ro" \o y.key = x IN
                            [mode |-> 256, at |-> Tm(8000 - Delta), mt |-> Tm(8000), nlink |-> 1, c |-> Content(e.key, e.val, 0, 1, 1)]]
                    ELSE <<>>) @@
                   [x \in {PreIno(i) : i \in 1..Len(PreSeq)} |->
                        LET i == CHOOSE j \in 1..Len(PreSeq) : PreIno(j) = x IN
                        [mode |-> 256, at |-> Tm(9000 + i - Delta), mt |-> Tm(9000 + i), nlink |-> 1,
                         c |-> Content(PreSeq[i].key, PreSeq[i].val, 0, 1, 1)]] @@
                   [x \in {"deb" \o d.name : d \in Debris} |->
                        LET d == CHOOSE y \in Debris : "deb" \o y.name = x IN
                        [mode |-> 384, at |-> Tm(10000 - d.age), mt |-> Tm(10000 - d.age), nlink |-> 1, c |-> EmptyContent]]]

NoOp == [api |-> "none", key |-> "", val |-> "", chunks |-> 0]
\* local state of a participant:
\*   b      the cache directory the current lookup / publish addresses      td   the directory holding its temp file
\*   mb     the directory under maintenance (prune + temp cleanup)          mcont what follows that maintenance
\*   mkq, mki, mk2, mkok, mkerr   the create_dir_all sub-machine (chain, index, second attempt?, continuations)
\*   est    sharded: load estimates (function directory -> 0..255)          probe sharded: which candidate is looked at (1|2)
IdleLoc == [opi |-> 0, op |-> NoOp, now |-> 0, tmp |-> "", tino |-> "", tfd |-> FALSE, fd |-> "", dfd |-> "",
            names |-> <<>>, idx |-> 0, ents |-> <<>>, evict |-> <<>>, back |-> <<>>, att |-> 1,
            cont |-> "", hit |-> "", wr |-> 0, fired |-> FALSE, stmode |-> 0, stat |-> <<>>, rr |-> <<>>, cap |-> Cap,
            b |-> Root, td |-> TDof(Root), mb |-> Root, mcont |-> "", mkq |-> <<>>, mki |-> 1, mkok |-> "", mkerr |-> "",
            est |-> <<>>, probe |-> 1, h1 |-> Root, h2 |-> Root, maintained |-> FALSE, rem |-> 0, bound |-> TRUE, wcont |-> "",
            ferr |-> ""]      \* the error a failed call left behind while its file / directory handle is being closed

FaultAtSet == {-1}
Init ==
    /\ fs = InitFS
    /\ clock = 10000
    /\ nino = Cardinality(Pre) + 1
    /\ pc = [p \in Procs |-> "idle"]
    /\ loc = [p \in Procs |-> [IdleLoc EXCEPT !.est = [b \in BaseDirs |-> 0]]]
    /\ \E fa \in FaultAtSet : aux = [faultat |-> fa, nsys |-> 0, pubs |-> [x \in DOMAIN InitFS.inos |-> TRUE],
              supplied |-> {<<e.key, e.val>> : e \in Pre} \cup (IF FrontKind = "stack" THEN {<<e.key, e.val>> : e \in PreRO} ELSE {}),
              dirty |-> {},
              errs |-> {}, rets |-> <<>>, crashes |-> 0, advs |-> 0, crashed |-> {}, faults |-> 0, faulted |-> {}, unlinkfailed |-> {}, fpoint |-> <<>>]
    /\ last = [e |-> "init"]

\* chmod argument of set_read_only: the stat'ed mode without its write bits
ChmodMode(m) == m - (IF ModeBit(m, 128) THEN 128 ELSE 0) - (IF ModeBit(m, 16) THEN 16 ELSE 0) - (IF ModeBit(m, 2) THEN 2 ELSE 0)

\* ---- the call a participant issues next ------------------------------------
SysLabels == {"g1", "g2", "g3", "t1", "t2", "t3", "t4",
              "a1", "k1", "k1s", "k2", "k2s", "a3", "a4", "x1",
              "m1", "m2", "m3", "m4", "m5", "m7", "m8a", "m8w", "m8b", "m8c", "m9",
              "c1", "c2", "c3", "c4", "c4u", "c5", "c6",
              "p1", "p1w", "p2", "p3", "p4", "p5", "p6", "q1", "q2", "q3", "q4", "p7",
              "d1", "d2", "d3", "ms1", "ms2", "ms3", "ft1", "ft2", "ft3", "ft4", "ft5", "d1t",
              "es", "ec", "ef1", "ef2", "ecp1", "ecp2", "ew", "efc", "efs", "ecl", "eop", "eg1", "eg2", "eg3", "ecl2", "esk", "eun", "ecl3", "ecl4", "eoc", "ecl5"}

RO == <<"RDONLY", "CLOEXEC">>
WO == <<"WRONLY", "CLOEXEC">>
DIRFL == <<"RDONLY", "DIRECTORY", "CLOEXEC">>

\* does this write replace (rename) or insert-if-absent (link)?  A Replace answered for a hit sets; a miss puts.
SetsL(l) == SetLike(l.op.api) \/ (l.op.api = "gou" /\ l.wcont = "rep")
NextCallL(p, l, lbl) ==
    LET k == l.op.key IN
    CASE lbl = "g1" -> [call |-> "open", path |-> PIn(l.b, k), flags |-> RO, ph |-> "lib"]
      [] lbl = "g2" -> [call |-> "stat", via |-> "fd", ino |-> l.fd, ph |-> "lib"]
      [] lbl = "g3" -> [call |-> "utimens", via |-> "fd", ino |-> l.fd, atk |-> "set", at |-> l.stat.mt, mtk |-> "omit", ph |-> "lib"]
      [] lbl = "t1" -> [call |-> "open", path |-> PIn(l.b, k), flags |-> RO, ph |-> "lib"]
      [] lbl = "t2" -> [call |-> "open", path |-> PIn(l.b, k), flags |-> WO, ph |-> "lib"]
      [] lbl = "t3" -> [call |-> "utimens", via |-> "fd", ino |-> l.fd, atk |-> "set", at |-> Tm(l.now), mtk |-> "omit", ph |-> "lib"]
      [] lbl = "t4" -> [call |-> "close", via |-> "fd", ino |-> l.fd, ph |-> "lib"]
      \* temp_dir(): ensure_directory = stat, then create_dir_all
      [] lbl = "a1" -> [call |-> "stat", path |-> PathOfDir(l.td), ph |-> "lib"]
      [] lbl \in {"k1", "k2"} -> [call |-> "mkdir", path |-> PathOfDir(l.mkq[l.mki]), cmode |-> 511, ph |-> "lib"]
      [] lbl \in {"k1s", "k2s"} -> [call |-> "stat", path |-> PathOfDir(l.mkq[l.mki]), ph |-> "lib"]
      \* application: NamedTempFile + writes
      [] lbl = "a3" -> [call |-> "open", path |-> PIn(l.td, TmpNameL(p, l)), flags |-> <<"RDWR", "CREAT", "EXCL", "CLOEXEC">>, cmode |-> 384, ph |-> "prep"]
      [] lbl = "a4" -> [call |-> "write", via |-> "fd", ino |-> l.tino, ph |-> "prep"]
      \* sharded write path: does the key already live in the candidate the load order ranks second?
      [] lbl = "x1" -> [call |-> "stat", path |-> PIn(l.h2, k), ph |-> "lib"]
      \* maintenance: prune
      [] lbl = "m1" -> [call |-> "open", path |-> PathOfDir(l.mb), flags |-> DIRFL, ph |-> "lib"]
      [] lbl = "m2" -> [call |-> "stat", via |-> "fd", dir |-> l.mb, ph |-> "lib"]
      [] lbl \in {"m3", "m5"} -> [call |-> "getdents", via |-> "fd", dir |-> l.mb, ph |-> "lib"]
      [] lbl = "m4" -> [call |-> "stat", path |-> PIn(l.mb, l.names[l.idx]), nofollow |-> TRUE, ph |-> "lib"]
      [] lbl = "m7" -> [call |-> "unlink", path |-> PIn(l.mb, l.evict[l.idx]), ph |-> "lib"]
      [] lbl = "m8a" -> [call |-> "open", path |-> PIn(l.mb, l.back[l.idx]), flags |-> RO, ph |-> "lib"]
      [] lbl = "m8w" -> [call |-> "open", path |-> PIn(l.mb, l.back[l.idx]), flags |-> WO, ph |-> "lib"]
      [] lbl = "m8b" -> [call |-> "utimens", via |-> "fd", ino |-> l.fd, atk |-> "set", at |-> Tm(l.now - Delta), mtk |-> "set", mt |-> Tm(l.now), ph |-> "lib"]
      [] lbl = "m8c" -> [call |-> "close", via |-> "fd", ino |-> l.fd, ph |-> "lib"]
      [] lbl = "m9" -> [call |-> "close", via |-> "fd", dir |-> l.mb, ph |-> "lib"]
      \* maintenance: temporary-file cleanup
      [] lbl = "c1" -> [call |-> "open", path |-> PathOfDir(TDof(l.mb)), flags |-> DIRFL, ph |-> "lib"]
      [] lbl = "c2" -> [call |-> "stat", via |-> "fd", dir |-> TDof(l.mb), ph |-> "lib"]
      [] lbl \in {"c3", "c5"} -> [call |-> "getdents", via |-> "fd", dir |-> TDof(l.mb), ph |-> "lib"]
      [] lbl = "c4" -> [call |-> "stat", path |-> PIn(TDof(l.mb), l.names[l.idx]), nofollow |-> TRUE, ph |-> "lib"]
      [] lbl = "c4u" -> [call |-> "unlink", path |-> PIn(TDof(l.mb), l.names[l.idx]), ph |-> "lib"]
      [] lbl = "c6" -> [call |-> "close", via |-> "fd", dir |-> TDof(l.mb), ph |-> "lib"]
      \* publish (StampBeforePublish)
      [] lbl = "p1" -> [call |-> "open", path |-> PIn(l.td, l.tmp), flags |-> RO, ph |-> "lib"]
      [] lbl = "p1w" -> [call |-> "open", path |-> PIn(l.td, l.tmp), flags |-> WO, ph |-> "lib"]
      [] lbl = "p2" -> [call |-> "utimens", via |-> "fd", ino |-> l.fd, atk |-> "set", at |-> Tm(l.now - Delta), mtk |-> "set", mt |-> Tm(l.now), ph |-> "lib"]
      [] lbl = "p3" -> [call |-> "close", via |-> "fd", ino |-> l.fd, ph |-> "lib"]
      [] lbl = "p4" -> [call |-> "stat", path |-> PIn(l.td, l.tmp), nofollow |-> TRUE, ph |-> "lib"]
      [] lbl = "p5" -> [call |-> "chmod", path |-> PIn(l.td, l.tmp), cmode |-> ChmodMode(l.stmode), ph |-> "lib"]
      [] lbl = "p6" -> [call |-> IF SetsL(l) THEN "rename" ELSE "link", path |-> PIn(l.td, l.tmp), path2 |-> PIn(l.b, k), ph |-> "lib"]
      [] lbl = "q1" -> [call |-> "open", path |-> PIn(l.b, k), flags |-> RO, ph |-> "lib"]
      [] lbl = "q2" -> [call |-> "open", path |-> PIn(l.b, k), flags |-> WO, ph |-> "lib"]
      [] lbl = "q3" -> [call |-> "utimens", via |-> "fd", ino |-> l.fd, atk |-> "set", at |-> Tm(l.now), mtk |-> "omit", ph |-> "lib"]
      [] lbl = "q4" -> [call |-> "close", via |-> "fd", ino |-> l.fd, ph |-> "lib"]
      [] lbl = "p7" -> [call |-> "unlink", path |-> PIn(l.td, l.tmp), ph |-> "lib"]
      \* application epilogue: does the source still exist; drop the NamedTempFile
      \* stacked cache: get_or_update (ensure = get_or_update with the judge Promote)
      [] lbl = "eoc" -> [call |-> "close", via |-> "fd", ino |-> l.hit, ph |-> "cb"]         \* Replace: populate is handed the old file and drops it
      [] lbl = "ecl5" -> [call |-> "close", via |-> "fd", ino |-> l.hit, ph |-> "lib"]      \* error path: the pre-opened return value
      [] lbl \in {"es", "esk"} -> [call |-> "lseek", via |-> "fd", ino |-> l.hit, ph |-> "lib"]
      [] lbl = "ec" -> [call |-> "open", path |-> PIn(l.td, TmpNameL(p, l)), flags |-> <<"RDWR", "CREAT", "EXCL", "CLOEXEC">>, cmode |-> 384, ph |-> "lib"]
      [] lbl = "ef1" -> [call |-> "stat", via |-> "fd", ino |-> l.hit, ph |-> "lib"]
      [] lbl = "ef2" -> [call |-> "stat", via |-> "fd", ino |-> l.tino, ph |-> "lib"]
      [] lbl \in {"ecp1", "ecp2"} -> [call |-> "copy", via |-> "fd", ino |-> l.tino, ino2 |-> l.hit, ph |-> "lib"]
      [] lbl = "ew" -> [call |-> "write", via |-> "fd", ino |-> l.tino, ph |-> "cb"]
      [] lbl = "efc" -> [call |-> "chmod", via |-> "fd", ino |-> l.tino, cmode |-> 292, ph |-> "lib"]
      [] lbl = "efs" -> [call |-> "fsync", via |-> "fd", ino |-> l.tino, ph |-> "lib"]
      [] lbl = "ecl" -> [call |-> "close", via |-> "fd", ino |-> l.tino, ph |-> "lib"]
      [] lbl = "eop" -> [call |-> "open", path |-> PIn(l.td, l.tmp), flags |-> RO, ph |-> "lib"]
      [] lbl = "eg1" -> [call |-> "open", path |-> PIn(Root, k), flags |-> RO, ph |-> "lib"]
      [] lbl = "eg2" -> [call |-> "stat", via |-> "fd", ino |-> l.fd, ph |-> "lib"]
      [] lbl = "eg3" -> [call |-> "utimens", via |-> "fd", ino |-> l.fd, atk |-> "set", at |-> l.stat.mt, mtk |-> "omit", ph |-> "lib"]
      [] lbl = "ecl2" -> [call |-> "close", via |-> "fd", ino |-> l.tino, ph |-> "lib"]
      [] lbl = "eun" -> [call |-> "unlink", path |-> PIn(l.td, l.tmp), ph |-> "lib"]
      [] lbl = "ecl3" -> [call |-> "close", via |-> "fd", ino |-> l.tino, ph |-> "lib"]      \* error path: the temp file's descriptor
      [] lbl = "ecl4" -> [call |-> "close", via |-> "fd", ino |-> l.hit, ph |-> "lib"]       \* error path: the read-only hit being promoted
      \* stacked set / put: maybe_sync_path (auto_sync) opens the staged file, flushes it, closes it
      [] lbl = "ms1" -> [call |-> "open", path |-> PIn(l.td, l.tmp), flags |-> RO, ph |-> "lib"]
      [] lbl = "ms2" -> [call |-> "fsync", via |-> "fd", ino |-> l.tino, ph |-> "lib"]
      [] lbl = "ms3" -> [call |-> "close", via |-> "fd", ino |-> l.tino, ph |-> "lib"]
      \* set_temp_file / put_temp_file: finalize_tempfile makes the file read-only, flushes it, closes it (the close is checked);
      \* its path guard removes the name when the call ends (ft4); on an early error the still open descriptor is closed (ft5)
      [] lbl = "ft1" -> [call |-> "chmod", via |-> "fd", ino |-> l.tino, cmode |-> 292, ph |-> "lib"]
      [] lbl = "ft2" -> [call |-> "fsync", via |-> "fd", ino |-> l.tino, ph |-> "lib"]
      [] lbl = "ft3" -> [call |-> "close", via |-> "fd", ino |-> l.tino, ph |-> "lib"]
      [] lbl = "ft4" -> [call |-> "unlink", path |-> PIn(l.td, l.tmp), ph |-> "lib"]
      [] lbl = "ft5" -> [call |-> "close", via |-> "fd", ino |-> l.tino, ph |-> "lib"]
      [] lbl = "d1t" -> [call |-> "stat", path |-> PIn(l.td, l.tmp), nofollow |-> TRUE, ph |-> "app"]
      [] lbl = "d1" -> [call |-> "stat", path |-> PIn(l.td, l.tmp), nofollow |-> TRUE, ph |-> "app"]
      [] lbl = "d2" -> [call |-> "unlink", path |-> PIn(l.td, l.tmp), ph |-> "app"]
      [] lbl = "d3" -> [call |-> "close", via |-> "fd", ino |-> l.tino, ph |-> "app"]

NextCallAt(p, lbl) == NextCallL(p, loc[p], lbl)
NextCall(p) == NextCallAt(p, pc[p])

\* ---- results of a call in the model (trace mode takes them from the record) --
IsAbsent(res) == res \in {"ENOENT", "ESTALE", "ENOTDIR"}
\* the library's own notion of "the file is gone" (benign_error::is_absent_file_error: NotFound or ESTALE)
AbsentErr(err) == err \in {"ENOENT", "ESTALE"}

Ret(c0, newino) ==
    LET rs == Pred(fs, c0, FALSE)
        res == IF "ok" \in rs \/ "ANY" \in rs THEN "ok" ELSE IF "ENOENT" \in rs THEN "ENOENT" ELSE CHOOSE r \in rs : TRUE
        c1 == c0 @@ [res |-> res]
    IN IF res # "ok" THEN c1
       ELSE IF c0.call = "open" THEN
            LET tgt == Lookup(fs, c0.path) IN
            IF tgt = "DIR" THEN c1 @@ [isdir |-> TRUE]
            ELSE IF tgt = "NONE" THEN c1 @@ [ino |-> newino]
            ELSE c1 @@ [ino |-> tgt]
       ELSE IF c0.call = "stat" THEN
            LET i == Target(fs, c0) IN
            IF i \in DOMAIN fs.inos THEN c1 @@ [st |-> [kind |-> "file", mode |-> fs.inos[i].mode, at |-> fs.inos[i].at, mt |-> fs.inos[i].mt]]
            ELSE c1 @@ [st |-> [kind |-> "dir", mode |-> 493, at |-> Tm(0), mt |-> Tm(0)]]
       ELSE IF c0.call = "getdents" THEN
            c1 @@ [names |-> IF c0.dir \in DOMAIN fs.ents THEN SetToSeq(DOMAIN fs.ents[c0.dir]) ELSE <<>>]
       ELSE c1

\* kernel-chosen values in the model
ObsMC(p, c) ==
    IF c.call = "open" /\ c.res = "ok" /\ Has(c, "ino") /\ Lookup(fs, c.path) = "NONE" THEN
        [inos |-> (c.ino :> [mode |-> c.cmode, at |-> Tm(clock), mt |-> Tm(clock), c |-> EmptyContent])]
    ELSE IF c.call = "copy" /\ c.res = "ok" THEN
        \* the first copy_file_range transfers the whole (small) file, the second returns 0
        [inos |-> (c.ino :> [c |-> IF pc[p] = "ecp1" THEN fs.inos[c.ino2].c ELSE fs.inos[c.ino].c, mt |-> Tm(clock), at |-> fs.inos[c.ino].at])
                  @@ (c.ino2 :> [at |-> fs.inos[c.ino2].at])]
    ELSE IF c.call = "write" /\ c.res = "ok" THEN
        LET o == Op(p) i == c.ino IN
        [inos |-> (i :> [c |-> Content(o.key, o.val, p, o.chunks, loc[p].wr + 1), mt |-> Tm(clock), at |-> fs.inos[i].at])]
    ELSE [inos |-> <<>>]

\* ---- local control flow ------------------------------------------------------
Go(l, lbl) == [pc |-> lbl, loc |-> l, ret |-> <<>>, tick |-> FALSE]
\* ReadClock: FileTime::now() / SystemTime::now() is read here (a vDSO call, not a system call)
GoNow(l, lbl) == [pc |-> lbl, loc |-> [l EXCEPT !.now = clock], ret |-> <<>>, tick |-> TRUE]
Done(l, ok, res, hit) == [pc |-> "ret", loc |-> l, ret |-> <<[ok |-> ok, res |-> res, hit |-> hit]>>, tick |-> FALSE]

Min2(a, b) == IF a < b THEN a ELSE b
Fail(l) == Go([l EXCEPT !.cont = "err"], IF EnsureLike(l.op.api) THEN (IF l.tmp # "" THEN (IF l.wcont \in {"eg1", "rep"} /\ l.hit # "" THEN "ecl5" ELSE "eun")
                                                                         ELSE IF l.wcont \in {"esk", "rep"} THEN "ecl4" ELSE "fail")
                                         ELSE IF TempFileApi(l.op.api) /\ l.tmp # "" THEN "ft4"
                                         ELSE IF l.tfd THEN "d1" ELSE "fail")
\* create_dir_all(chain[1]) then continue at `ok` (or fail)
MkdirAll(l, chain, okl) == Go([l EXCEPT !.mkq = chain, !.mki = 1, !.mkok = okl], "k1")
StartPublish(l) == GoNow(l, "p1")
PublishFailed(l) == IF l.att = 1 THEN MkdirAll([l EXCEPT !.att = 2], Chain(l.b), "pub") ELSE Fail(l)
\* maintenance of directory d (prune, then temp cleanup), then continue at mcont
Maintain(l, d, cont) == Go([l EXCEPT !.mb = d, !.mcont = cont, !.maintained = TRUE], "m1")
\* what follows a maintenance / a skipped one
AfterMaint(l) ==
    IF l.mcont = "publish" THEN StartPublish(l)
    ELSE IF l.mcont = "tempdir" THEN Go(l, "a1")
    ELSE \* "finish": a forced maintenance of a shard stores the count it found as that shard's estimate; the write is complete
         Go([l EXCEPT !.cont = "ok", !.est = IF FrontKind = "sharded" THEN [l.est EXCEPT ![l.mb] = Min2(l.rem, 255)] ELSE l.est], "d1")
\* end of the (sharded) write: maintain a random other shard if this write maintained, or this one if it looks overloaded
\* (EstimateWrongShard: the estimate that is updated is h1's, whichever directory was written)
EstAfter(l) == IF l.maintained THEN [l.est EXCEPT ![l.h1] = Min2(l.rem, 254) + 1]      \* the count the prune of the written shard returned, plus this file
               ELSE [l.est EXCEPT ![l.h1] = IF @ < 255 THEN @ + 1 ELSE @]
FinishWrite(l) ==
    IF EnsureLike(l.op.api) THEN (IF l.wcont = "rep" THEN Go([l EXCEPT !.cont = "ok"], "eun")      \* replace: return the file opened before publishing
                                  ELSE Go(l, l.wcont))       \* promote: rewind the hit; miss: look the key up again
    ELSE IF TempFileApi(l.op.api) THEN Go([l EXCEPT !.cont = "ok"], "ft4")
    ELSE IF FrontKind \in {"plain", "stack"} THEN Go([l EXCEPT !.cont = "ok"], "d1")
    ELSE LET l2 == [l EXCEPT !.est = EstAfter(l)] IN
         IF l.maintained THEN Go(l2, "y1")      \* maintain a random other shard
         ELSE Go(l2, "z1")                      \* maintain this shard if its estimate says it is far over capacity

EntryOf(name, st) == [id |-> name, rank |-> st.mt, acc |-> TLe(st.mt, st.at)]
\* the listing is complete: plan the Second Chance update and start applying it
PlanStep(l) ==
    LET pl == Plan(l.ents, l.cap)
        ev == [i \in 1..Len(pl.evict) |-> pl.evict[i].id]
        bk == [i \in 1..Len(pl.back) |-> pl.back[i].id]
        l2 == [l EXCEPT !.evict = ev, !.back = bk, !.idx = 1, !.rem = Len(l.ents) - Len(ev)]
    IN IF ev # <<>> THEN Go(l2, "m7") ELSE IF bk # <<>> THEN GoNow(l2, "m8a") ELSE Go(l2, "m9")

\* the judge has seen the hit: Accept / Promote rewind it (then return it or promote it); Replace keeps it as `old` and populates
Judged(l) == IF JudgeOf(l.op) = "replace" THEN Go([l EXCEPT !.b = Root, !.td = TDof(Root), !.wcont = "rep"], "a1") ELSE Go(l, "es")
AfterL(p, l, lbl, c) ==
    LET ok == c.res = "ok" api == l.op.api IN
    CASE lbl = "g1" -> IF ok THEN Go([l EXCEPT !.fd = c.ino, !.hit = c.ino], "g2")
                       ELSE IF AbsentErr(c.res) THEN
                            (IF l.probe = 1 /\ l.h2 # l.b THEN Go([l EXCEPT !.probe = 2, !.b = l.h2], "g1")
                             ELSE IF EnsureLike(api) THEN Go([l EXCEPT !.b = Root, !.td = TDof(Root), !.wcont = "eg1", !.hit = ""], "a1")
                             ELSE Done(l, TRUE, "none", ""))
                       ELSE Done(l, FALSE, c.res, "")
      [] lbl = "g2" -> IF ok /\ TLt(c.st.at, c.st.mt) THEN Go([l EXCEPT !.stat = c.st], "g3")
                       ELSE IF EnsureLike(api) THEN Judged(l) ELSE Done(l, TRUE, "some", l.hit)
      [] lbl = "g3" -> IF EnsureLike(api) THEN Judged(l) ELSE Done(l, TRUE, "some", l.hit)
      [] lbl = "t1" -> IF ok THEN Go([l EXCEPT !.fd = c.ino], "t3")
                       ELSE IF WriteFallback THEN Go(l, "t2")
                       ELSE IF AbsentErr(c.res) THEN
                            (IF l.probe = 1 /\ l.h2 # l.b THEN GoNow([l EXCEPT !.probe = 2, !.b = l.h2], "t1") ELSE Done(l, TRUE, "false", ""))
                       ELSE Done(l, FALSE, c.res, "")
      [] lbl = "t2" -> IF ok THEN Go([l EXCEPT !.fd = c.ino], "t3")
                       ELSE IF AbsentErr(c.res) THEN
                            (IF l.probe = 1 /\ l.h2 # l.b THEN GoNow([l EXCEPT !.probe = 2, !.b = l.h2], "t1") ELSE Done(l, TRUE, "false", ""))
                       ELSE Done(l, FALSE, c.res, "")
      [] lbl = "t3" -> IF ok THEN Go(l, "t4") ELSE Go([l EXCEPT !.ferr = c.res], "t4")     \* the handle is closed either way
      [] lbl = "t4" -> LET l2 == [l EXCEPT !.fd = "", !.ferr = ""] IN
                       IF l.ferr = "" THEN Done(l2, TRUE, "true", "")
                       ELSE IF AbsentErr(l.ferr) THEN
                            (IF l.probe = 1 /\ l.h2 # l.b THEN GoNow([l2 EXCEPT !.probe = 2, !.b = l.h2], "t1") ELSE Done(l2, TRUE, "false", ""))
                       ELSE Done(l2, FALSE, l.ferr, "")
      \* temp_dir()
      [] lbl = "a1" -> LET nxt == IF EnsureLike(api) THEN "ec" ELSE "a3" IN
                       IF ok /\ c.st.kind = "dir" THEN Go(l, nxt) ELSE MkdirAll(l, Chain(l.td), nxt)
      \* create_dir_all: first attempt at level mki
      [] lbl = "k1" -> IF ok THEN (IF l.mki = 1 THEN Go(l, l.mkok) ELSE Go([l EXCEPT !.mki = @ - 1], "k2"))
                       ELSE IF c.res = "ENOENT" /\ l.mki < Len(l.mkq) THEN Go([l EXCEPT !.mki = @ + 1], "k1")
                       ELSE IF c.res = "EEXIST" THEN Go(l, "k1s")       \* std: only "already exists" is worth an is_dir() check
                       ELSE Fail(l)
      [] lbl = "k1s" -> IF ok /\ c.st.kind = "dir" THEN (IF l.mki = 1 THEN Go(l, l.mkok) ELSE Go([l EXCEPT !.mki = @ - 1], "k2")) ELSE Fail(l)
      \* second attempt (after the parent was created)
      [] lbl = "k2" -> IF ok THEN (IF l.mki = 1 THEN Go(l, l.mkok) ELSE Go([l EXCEPT !.mki = @ - 1], "k2"))
                       ELSE IF c.res = "EEXIST" THEN Go(l, "k2s") ELSE Fail(l)
      [] lbl = "k2s" -> IF ok /\ c.st.kind = "dir" THEN (IF l.mki = 1 THEN Go(l, l.mkok) ELSE Go([l EXCEPT !.mki = @ - 1], "k2")) ELSE Fail(l)
      [] lbl = "a3" -> IF ok THEN Go([l EXCEPT !.tmp = c.path.n, !.tino = c.ino, !.tfd = TRUE, !.wr = 0], "a4")
                       ELSE Done(l, FALSE, c.res, "")
      [] lbl = "a4" -> IF ~ok THEN Go([l EXCEPT !.cont = "err"], "d2")
                       ELSE IF l.wr + 1 < l.op.chunks THEN Go([l EXCEPT !.wr = @ + 1], "a4")
                       ELSE Go([l EXCEPT !.wr = @ + 1, !.att = 1, !.maintained = FALSE],
                               IF StagedOutside(api) THEN (IF TempFileApi(api) THEN "ft1" ELSE "ms1")
                               ELSE IF FrontKind # "sharded" THEN "s1" ELSE "x1")
      \* sharded: write to h2 iff the key already lives there (only NotFound means absent), else to h1
      [] lbl = "x1" -> IF ok THEN Go([l EXCEPT !.b = l.h2], "s1")
                       ELSE IF c.res = "ENOENT" THEN Go([l EXCEPT !.b = l.h1], "s1")
                       ELSE Fail(l)
      \* prune
      [] lbl = "m1" -> IF ok THEN Go([l EXCEPT !.dfd = l.mb], "m2")
                       ELSE IF AbsentErr(c.res) THEN AfterMaint(l) ELSE Fail(l)
      [] lbl = "m2" -> IF ok THEN Go(l, "m3") ELSE Go([l EXCEPT !.ferr = c.res], "m9")      \* opendir's fstat failed: close, report
      [] lbl = "m3" -> \* a failed getdents is one skipped item and the end of the iteration (std::fs::ReadDir)
                       IF ~ok THEN PlanStep([l EXCEPT !.ents = <<>>, !.names = <<>>]) ELSE
                       \* dot-prefixed names are skipped without a stat: they are never cache entries
                       LET ns == SelectSeq(c.names, LAMBDA n : FirstChar(n) # ".") IN
                       IF ns = <<>> THEN Go([l EXCEPT !.ents = <<>>, !.names = <<>>], "m5")
                       ELSE Go([l EXCEPT !.names = ns, !.idx = 1, !.ents = <<>>], "m4")
      [] lbl = "m4" ->
            LET l2 == IF ok /\ c.st.kind # "dir" THEN [l EXCEPT !.ents = Append(@, EntryOf(l.names[l.idx], c.st))] ELSE l IN
            IF ~ok /\ ~AbsentErr(c.res) THEN Go([l EXCEPT !.ferr = c.res], "m9")
            ELSE IF l.idx < Len(l.names) THEN Go([l2 EXCEPT !.idx = @ + 1], "m4") ELSE Go(l2, "m5")
      [] lbl = "m5" -> PlanStep(l)     \* (a failed getdents ends the iteration like the end of the directory does)
      [] lbl = "m7" ->
            IF ~ok /\ ~AbsentErr(c.res) THEN Go([l EXCEPT !.ferr = c.res], "m9")
            ELSE IF l.idx < Len(l.evict) THEN Go([l EXCEPT !.idx = @ + 1], "m7")
            ELSE IF l.back # <<>> THEN GoNow([l EXCEPT !.idx = 1], "m8a") ELSE Go(l, "m9")
      [] lbl = "m8a" -> IF ok THEN Go([l EXCEPT !.fd = c.ino], "m8b")
                        ELSE IF WriteFallback THEN Go(l, "m8w")
                        ELSE IF AbsentErr(c.res) THEN (IF l.idx < Len(l.back) THEN GoNow([l EXCEPT !.idx = @ + 1], "m8a") ELSE Go(l, "m9"))
                        ELSE Go([l EXCEPT !.ferr = c.res], "m9")
      [] lbl = "m8w" -> IF ok THEN Go([l EXCEPT !.fd = c.ino], "m8b")
                        ELSE IF AbsentErr(c.res) THEN (IF l.idx < Len(l.back) THEN GoNow([l EXCEPT !.idx = @ + 1], "m8a") ELSE Go(l, "m9"))
                        ELSE Go([l EXCEPT !.ferr = c.res], "m9")
      [] lbl = "m8b" -> IF ok THEN Go(l, "m8c") ELSE Go([l EXCEPT !.ferr = c.res], "m8c")
      [] lbl = "m8c" -> IF l.ferr # "" /\ ~AbsentErr(l.ferr) THEN Go([l EXCEPT !.fd = ""], "m9")      \* a failed re-stamp ends the maintenance
                        ELSE IF l.idx < Len(l.back) THEN GoNow([l EXCEPT !.idx = @ + 1, !.fd = "", !.ferr = ""], "m8a")
                        ELSE Go([l EXCEPT !.fd = "", !.ferr = ""], "m9")
      \* the directory stream is closed; an error that means "the directory is gone" ends the maintenance quietly (no temp cleanup)
      [] lbl = "m9" -> LET l2 == [l EXCEPT !.dfd = "", !.ferr = ""] IN
                       IF l.ferr = "" THEN Go(l2, "c1") ELSE IF AbsentErr(l.ferr) THEN AfterMaint(l2) ELSE Fail(l2)
      \* temp cleanup
      [] lbl = "c1" -> IF ok THEN Go([l EXCEPT !.dfd = TDof(l.mb)], "c2")
                       ELSE IF AbsentErr(c.res) THEN AfterMaint(l) ELSE Fail(l)
      [] lbl = "c2" -> IF ok THEN Go(l, "c3") ELSE Go([l EXCEPT !.ferr = c.res], "c6")
      [] lbl = "c3" -> IF ~ok THEN Go(l, "c6")          \* (the failed item is skipped and the iteration is over)
                       ELSE IF c.names = <<>> THEN Go(l, "c5") ELSE Go([l EXCEPT !.names = c.names, !.idx = 1], "c4")
      [] lbl = "c4" -> IF ok THEN Go([l EXCEPT !.stat = c.st], "c4d")    \* is it older than the limit? (local decision)
                       ELSE IF l.idx < Len(l.names) THEN Go([l EXCEPT !.idx = @ + 1], "c4") ELSE Go(l, "c5")
      [] lbl = "c4u" -> IF l.idx < Len(l.names) THEN Go([l EXCEPT !.idx = @ + 1], "c4") ELSE Go(l, "c5")
      [] lbl = "c5" -> Go(l, "c6")
      [] lbl = "c6" -> LET l2 == [l EXCEPT !.dfd = "", !.ferr = ""] IN
                       IF l.ferr = "" \/ AbsentErr(l.ferr) THEN AfterMaint(l2) ELSE Fail(l2)
      \* publish
      [] lbl = "p1" -> IF ok THEN Go([l EXCEPT !.fd = c.ino], "p2") ELSE IF WriteFallback THEN Go(l, "p1w") ELSE PublishFailed(l)
      [] lbl = "p1w" -> IF ok THEN Go([l EXCEPT !.fd = c.ino], "p2") ELSE PublishFailed(l)
      [] lbl = "p2" -> IF ok THEN Go(l, "p3") ELSE Go([l EXCEPT !.ferr = c.res], "p3")
      [] lbl = "p3" -> IF l.ferr = "" THEN Go([l EXCEPT !.fd = ""], "p4") ELSE PublishFailed([l EXCEPT !.fd = "", !.ferr = ""])
      [] lbl = "p4" -> IF ok THEN Go([l EXCEPT !.stmode = c.st.mode], "p5") ELSE PublishFailed(l)
      [] lbl = "p5" -> IF ok THEN Go(l, "p6") ELSE PublishFailed(l)
      [] lbl = "p6" -> IF ok THEN Go(l, "p7")
                       ELSE IF ~SetsL(l) /\ c.res = "EEXIST" THEN GoNow(l, "q1")
                       ELSE PublishFailed(l)
      [] lbl = "q1" -> IF ok THEN Go([l EXCEPT !.fd = c.ino], "q3")
                       ELSE IF WriteFallback THEN Go(l, "q2")
                       ELSE IF AbsentErr(c.res) THEN Go(l, "p7") ELSE PublishFailed(l)
      [] lbl = "q2" -> IF ok THEN Go([l EXCEPT !.fd = c.ino], "q3")
                       ELSE IF AbsentErr(c.res) THEN Go(l, "p7") ELSE PublishFailed(l)
      [] lbl = "q3" -> IF ok THEN Go(l, "q4") ELSE Go([l EXCEPT !.ferr = c.res], "q4")
      [] lbl = "q4" -> LET l2 == [l EXCEPT !.fd = "", !.ferr = ""] IN
                       IF l.ferr = "" \/ AbsentErr(l.ferr) THEN Go(l2, "p7") ELSE PublishFailed(l2)
      [] lbl = "p7" -> IF ok \/ AbsentErr(c.res) THEN FinishWrite(l) ELSE PublishFailed(l)
      \* ensure: rewind the hit; a hit in the write cache is returned, a hit in the read-only cache is promoted
      [] lbl = "es" -> IF ~ok THEN Go([l EXCEPT !.cont = "err"], "ecl4")
                       ELSE IF l.b = Root \/ JudgeOf(l.op) = "accept" THEN Done(l, TRUE, "some", l.hit)
                       ELSE Go([l EXCEPT !.b = Root, !.td = TDof(Root), !.wcont = "esk"], "a1")
      [] lbl = "ec" -> IF ok THEN Go([l EXCEPT !.tmp = c.path.n, !.tino = c.ino, !.wr = 0, !.tfd = TRUE], IF l.wcont = "esk" THEN "ef1" ELSE IF l.wcont = "rep" THEN "eoc" ELSE "ew")
                       ELSE Fail(l)
      [] lbl = "eoc" -> Go([l EXCEPT !.hit = ""], "ew")
      [] lbl = "ecl5" -> Go([l EXCEPT !.hit = ""], "eun")
      [] lbl = "ef1" -> Go(l, "ef2")
      [] lbl = "ef2" -> Go(l, "ecp1")
      [] lbl = "ecp1" -> IF ok THEN Go(l, "ecp2") ELSE Fail(l)
      [] lbl = "ecp2" -> IF ok THEN Go(l, "efc") ELSE Fail(l)
      [] lbl = "ew" -> IF ~ok THEN Fail(l)
                       ELSE IF l.wr + 1 < l.op.chunks THEN Go([l EXCEPT !.wr = @ + 1], "ew") ELSE Go([l EXCEPT !.wr = @ + 1], "efc")
      [] lbl = "efc" -> IF ok THEN Go(l, "efs") ELSE Fail(l)
      [] lbl = "efs" -> IF ok THEN Go(l, "ecl") ELSE Fail(l)              \* a failed flush is never followed by publication
      [] lbl = "ecl" -> IF ~ok THEN Fail([l EXCEPT !.tfd = FALSE])           \* (a failed close still releases the descriptor)
                        ELSE IF l.wcont = "esk" THEN Go([l EXCEPT !.att = 1, !.maintained = FALSE, !.tfd = FALSE], "s1")
                        ELSE Go([l EXCEPT !.tfd = FALSE], "eop")
      [] lbl = "eop" -> IF ok THEN Go([l EXCEPT !.att = 1, !.maintained = FALSE, !.hit = c.ino], "s1") ELSE Fail(l)
      [] lbl = "esk" -> Go([l EXCEPT !.cont = IF ok THEN "ok" ELSE "err"], "eun")
      [] lbl = "eg1" -> IF ok THEN Go([l EXCEPT !.fd = c.ino], "eg2") ELSE Go([l EXCEPT !.cont = "ok"], "eun")   \* evicted at once: keep the pre-opened handle
      [] lbl = "eg2" -> IF ok /\ TLt(c.st.at, c.st.mt) THEN Go([l EXCEPT !.stat = c.st], "eg3") ELSE Go(l, "ecl2")
      [] lbl = "eg3" -> Go(l, "ecl2")
      [] lbl = "ecl2" -> Go([l EXCEPT !.hit = l.fd, !.cont = "ok"], "eun")
      [] lbl = "eun" -> IF l.cont = "ok" THEN Done(l, TRUE, "some", l.hit)
                        ELSE IF l.tfd THEN Go(l, "ecl3") ELSE IF l.wcont = "esk" \/ (l.wcont = "rep" /\ l.hit # "") THEN Go(l, "ecl4") ELSE Done(l, FALSE, "err", "")
      [] lbl = "ecl3" -> IF l.wcont = "esk" \/ (l.wcont = "rep" /\ l.hit # "") THEN Go([l EXCEPT !.tfd = FALSE], "ecl4") ELSE Done([l EXCEPT !.tfd = FALSE], FALSE, "err", "")
      [] lbl = "ecl4" -> Done([l EXCEPT !.hit = "", !.fd = ""], FALSE, "err", "")
      \* application epilogue
      [] lbl = "ms1" -> IF ok THEN Go(l, "ms2") ELSE Fail(l)
      [] lbl = "ms2" -> Go(l, "ms3")            \* (a failed flush panics: not a result the model continues from)
      [] lbl = "ms3" -> Go(l, "s1")
      [] lbl = "ft1" -> IF ok THEN Go(l, "ft2") ELSE Fail(l)
      [] lbl = "ft2" -> IF ok THEN Go(l, "ft3") ELSE Fail(l)
      [] lbl = "ft3" -> IF ok THEN Go([l EXCEPT !.tfd = FALSE], "s1") ELSE Fail([l EXCEPT !.tfd = FALSE])
      [] lbl = "ft4" -> IF l.tfd THEN Go(l, "ft5") ELSE Go(l, "d1t")
      [] lbl = "ft5" -> Go([l EXCEPT !.tfd = FALSE], "d1t")
      [] lbl = "d1t" -> Done(l, l.cont = "ok", IF l.cont = "ok" THEN "unit" ELSE "err", "")
      [] lbl = "d1" -> Go(l, "d2")
      [] lbl = "d2" -> Go(l, "d3")
      [] lbl = "d3" -> Done([l EXCEPT !.tfd = FALSE], l.cont = "ok", IF l.cont = "ok" THEN "unit" ELSE "err", "")

AfterAt(p, lbl, c) == AfterL(p, loc[p], lbl, c)
After(p, c) == AfterAt(p, pc[p], c)

\* Local decisions that depend on the participant's clock, random draws or in-memory estimates.  In the exhaustive
\* configurations they are actions of their own; in trace validation they are inferred from the call that follows
\* (TraceKismet!Alts).
DecideOld(l, old) ==
    IF old THEN [pc |-> "c4u", loc |-> l]
    ELSE IF l.idx < Len(l.names) THEN [pc |-> "c4", loc |-> [l EXCEPT !.idx = @ + 1]] ELSE [pc |-> "c5", loc |-> l]
\* "s1": the write's own trigger event: maintain the target directory first, or publish at once
DecideFire(l, fire) == IF fire THEN [pc |-> "m1", loc |-> [l EXCEPT !.fired = TRUE, !.mb = l.b, !.mcont = "publish", !.maintained = TRUE]]
                       ELSE [pc |-> "p1", loc |-> [l EXCEPT !.fired = FALSE]]
\* "s0": sharded temp_dir(key): a trigger event decides whether the temp directory is cleaned first
DecideTempClean(l, fire) == IF fire THEN [pc |-> "c1", loc |-> [l EXCEPT !.mb = ParentOfTemp(l.td), !.mcont = "tempdir"]]
                            ELSE [pc |-> "a1", loc |-> l]
\* "y1": which other shard gets maintained (two shards: the other one)
DecideOther(l) == [pc |-> "m1", loc |-> [l EXCEPT !.mb = OtherShard(l.b), !.mcont = "finish", !.rem = 0]]
\* "z1": forced maintenance of the written shard when the (saturating, possibly stale) estimate of h1 is more than twice the capacity
DecideForced(l, forced) == IF forced THEN [pc |-> "m1", loc |-> [l EXCEPT !.mb = l.b, !.mcont = "finish", !.rem = 0]]
                           ELSE [pc |-> "d1", loc |-> [l EXCEPT !.cont = "ok"]]
\* the order of the two candidates by load (clamped at capacity; ties: primary first)
Clamp(x, c) == IF x > c THEN c ELSE x
OrderByLoad(l, dirs) == IF Clamp(l.est[dirs[1]], l.cap) <= Clamp(l.est[dirs[2]], l.cap) THEN dirs ELSE <<dirs[2], dirs[1]>>

\* ---- monitor bookkeeping (same definitions as the trace specification) --------
NewPubsK(f, pubs) ==
    LET cands == UNION {{f.ents[b][n] : n \in {x \in DOMAIN f.ents[b] : IsKeyName(x) /\ f.ents[b][x] # "DIR"}} : b \in BaseDirs \cap DOMAIN f.ents}
    IN [i \in cands |-> TRUE] @@ pubs

S == [fs |-> fs, pubs |-> aux.pubs, supplied |-> aux.supplied, planted |-> {}, dirty |-> aux.dirty, syncfail |-> {},
      cur |-> [p \in {q \in Procs : loc[q].opi > 0} |-> Op(p)]]

\* ---- actions -----------------------------------------------------------------
Alive(p) == p \notin aux.crashed

\* The application reads what a lookup returned as soon as it has it (the driver does, in the same scheduling step as the
\* operation's last call): under relatime that read marks a still unmarked file (atime := now).
AppRead(f, nx, api) ==
    IF nx.ret # <<>> /\ nx.ret[1].ok /\ api \in {"get", "ensure", "gou"} /\ nx.ret[1].res = "some" /\ nx.ret[1].hit \in DOMAIN f.inos
       /\ TLt(f.inos[nx.ret[1].hit].at, f.inos[nx.ret[1].hit].mt)
    THEN [f EXCEPT !.inos[nx.ret[1].hit].at = Tm(clock)] ELSE f

Begin(p) ==
    /\ Alive(p) /\ pc[p] = "idle" /\ loc[p].opi < Len(Prog[p])
    /\ LET o == Prog[p][loc[p].opi + 1]
           dirs == KeyDirsOf(o.key)
           ord == IF FrontKind # "sharded" THEN <<Root, Root>> ELSE OrderByLoad(loc[p], dirs)
           base == [IdleLoc EXCEPT !.opi = loc[p].opi + 1, !.op = o, !.now = clock, !.est = loc[p].est]
           l == IF o.api \in {"get", "touch", "ensure", "gou"} THEN [base EXCEPT !.b = dirs[1], !.h1 = dirs[1], !.h2 = dirs[2], !.probe = 1]
                ELSE IF StagedOutside(o.api) THEN [base EXCEPT !.h1 = Root, !.h2 = Root, !.b = Root, !.td = SrcDir]
                ELSE [base EXCEPT !.h1 = ord[1], !.h2 = ord[2], !.b = ord[1], !.td = TDof(ord[1])]
       IN /\ loc' = [loc EXCEPT ![p] = l]
          /\ pc' = [pc EXCEPT ![p] = IF o.api \in {"get", "ensure", "gou"} THEN "g1" ELSE IF o.api = "touch" THEN "t1"
                                     ELSE IF StagedOutside(o.api) THEN "a3"
                                     ELSE IF FrontKind # "sharded" THEN "a1" ELSE "s0"]
          /\ aux' = [aux EXCEPT !.supplied = @ \cup (IF o.api \in {"set", "put", "set_tf", "put_tf", "ensure", "gou"} THEN {<<o.key, o.val>>} ELSE {})]
          /\ last' = [e |-> "call", p |-> p, api |-> o.api, key |-> o.key]
    /\ clock' = clock + 1
    /\ UNCHANGED <<fs, nino>>

\* The trigger: a thread-local countdown; whether it fires on this event is a function of earlier random draws,
\* i.e. nondeterministic here (its arithmetic is Trigger.tla's business).
Fires == IF Maint = "never" THEN {FALSE} ELSE IF Maint = "always" THEN {TRUE} ELSE BOOLEAN
Trigger(p) ==
    /\ Alive(p) /\ pc[p] \in {"s0", "s1", "y1", "z1"}
    /\ \E fire \in (IF pc[p] \in {"y1", "z1"} THEN {TRUE} ELSE Fires) :
          LET d == IF pc[p] = "s1" THEN DecideFire(loc[p], fire)
                   ELSE IF pc[p] = "s0" THEN DecideTempClean(loc[p], fire)
                   ELSE IF pc[p] = "y1" THEN DecideOther(loc[p])
                   ELSE DecideForced(loc[p], loc[p].est[loc[p].h1] \div 2 > loc[p].cap)
          IN /\ pc' = [pc EXCEPT ![p] = d.pc]
             /\ loc' = [loc EXCEPT ![p] = [d.loc EXCEPT !.now = clock]]
             /\ last' = [e |-> "trigger", p |-> p, fire |-> fire, at |-> pc[p]]
    /\ clock' = clock + 1
    /\ UNCHANGED <<fs, nino, aux>>

AgeCheck(p) ==
    /\ Alive(p) /\ pc[p] = "c4d"
    /\ LET l == loc[p]
           d == DecideOld(l, TLt(<<l.stat.mt[1] + MaxAge, l.stat.mt[2]>>, Tm(l.now)))
       IN pc' = [pc EXCEPT ![p] = d.pc] /\ loc' = [loc EXCEPT ![p] = d.loc]
    /\ last' = [e |-> "tau", p |-> p]
    /\ UNCHANGED <<fs, clock, nino, aux>>

\* internal continuations of the create_dir_all sub-machine and of failures without an open temp file
Internal(p) ==
    /\ Alive(p) /\ pc[p] \in {"pub", "fail"}
    /\ LET l == loc[p]
           nx == IF pc[p] = "pub" THEN StartPublish(l) ELSE Done(l, FALSE, "err", "")
       IN /\ pc' = [pc EXCEPT ![p] = nx.pc] /\ loc' = [loc EXCEPT ![p] = nx.loc]
          /\ aux' = [aux EXCEPT !.rets = IF nx.ret # <<>> THEN (p :> (nx.ret[1] @@ [api |-> Op(p).api, key |-> Op(p).key])) @@ @ ELSE @,
                                !.errs = IF nx.ret # <<>> /\ ~nx.ret[1].ok /\ <<p, l.opi>> \notin aux.faulted THEN @ \cup {<<p, l.opi, nx.ret[1].res>>} ELSE @]
          /\ clock' = IF nx.tick THEN clock + 1 ELSE clock
    /\ last' = [e |-> "tau", p |-> p]
    /\ UNCHANGED <<fs, nino>>

Sys(p) ==
    /\ Alive(p) /\ pc[p] \in SysLabels
    /\ LET c0 == NextCall(p)
           c == Ret(c0, "n" \o ToString(p) \o "x" \o ToString(loc[p].opi))
           m == Eff(fs, c, ObsMC(p, c), 0)
           nx == After(p, c)
           created == c.call = "open" /\ c.res = "ok" /\ Has(c, "ino") /\ Lookup(fs, c.path) = "NONE"
       IN /\ fs' = AppRead(m, nx, Op(p).api)
          /\ nino' = IF created THEN nino + 1 ELSE nino
          /\ pc' = [pc EXCEPT ![p] = nx.pc]
          /\ loc' = [loc EXCEPT ![p] = nx.loc]
          /\ aux' = [aux EXCEPT !.nsys = @ + 1, !.pubs = NewPubsK(m, @),
                                !.dirty = IF c.res = "ok" /\ c.call \in {"write", "copy"} THEN @ \cup {c.ino}
                                          ELSE IF c.res = "ok" /\ c.call = "fsync" THEN @ \ {c.ino} ELSE @,
                                !.rets = IF nx.ret # <<>> THEN (p :> (nx.ret[1] @@ [api |-> Op(p).api, key |-> Op(p).key])) @@ @ ELSE @,
                                !.errs = IF nx.ret # <<>> /\ ~nx.ret[1].ok /\ <<p, loc[p].opi>> \notin aux.faulted
                                        THEN @ \cup {<<p, loc[p].opi, nx.ret[1].res>>} ELSE @]
          /\ last' = c @@ [e |-> "sys", p |-> p, api |-> Op(p).api, pcl |-> pc[p]]
          /\ clock' = IF nx.tick THEN clock + 1 ELSE clock

\* C18: one library system call fails with an injected error (the call has no effect); the control flow continues from
\* the failed call exactly as the code does (AfterL is total over results)
FaultErrnos(call) == IF call = "close" THEN {}
                     ELSE IF call \in {"open", "stat", "unlink", "rename", "link", "utimens"} THEN {"EIO", "ESTALE"}
                     ELSE {"EIO"}
FailSys(p) ==
    /\ Alive(p) /\ pc[p] \in SysLabels /\ aux.faults < FaultBudget
    /\ aux.faultat \in {-1, aux.nsys}
    /\ LET c0 == NextCall(p) IN
       /\ c0.ph \in {"lib", "cb"} /\ pc[p] \notin {"ef1", "ef2", "ms2"}
       /\ \E er \in FaultErrnos(c0.call) :
            LET c == c0 @@ [res |-> er, inj |-> TRUE]
                nx == After(p, c)
            IN /\ pc' = [pc EXCEPT ![p] = nx.pc]
               /\ loc' = [loc EXCEPT ![p] = nx.loc]
               /\ aux' = [aux EXCEPT !.nsys = @ + 1, !.faults = @ + 1, !.faulted = @ \cup {<<p, loc[p].opi>>},
                                     !.unlinkfailed = IF c0.call = "unlink" THEN @ \cup {c0.path.n} ELSE @,
                                     !.fpoint = <<p, loc[p].opi, pc[p], loc[p].idx, er>>,
                                     !.rets = IF nx.ret # <<>> THEN (p :> (nx.ret[1] @@ [api |-> Op(p).api, key |-> Op(p).key])) @@ @ ELSE @]
               /\ last' = c @@ [e |-> "sys", p |-> p, api |-> Op(p).api, pcl |-> pc[p]]
               /\ clock' = IF nx.tick THEN clock + 1 ELSE clock
               /\ fs' = AppRead(fs, nx, Op(p).api)
    /\ UNCHANGED nino

Return(p) ==
    /\ Alive(p) /\ pc[p] = "ret"
    /\ pc' = [pc EXCEPT ![p] = "idle"]
    /\ last' = [e |-> "ret", p |-> p]
    /\ UNCHANGED <<fs, clock, nino, loc, aux>>

Crash(p) ==
    /\ Alive(p) /\ pc[p] \notin {"idle", "ret"} /\ aux.crashes < CrashBudget
    /\ aux' = [aux EXCEPT !.crashes = @ + 1, !.crashed = @ \cup {p}]
    /\ last' = [e |-> "crash", p |-> p]
    /\ UNCHANGED <<fs, clock, nino, pc, loc>>

AdvDelete ==
    /\ aux.advs < AdvBudget
    /\ \E b \in BaseDirs \cap DOMAIN fs.ents : \E n \in {x \in DOMAIN fs.ents[b] : IsKeyName(x) /\ fs.ents[b][x] # "DIR"} :
          /\ fs' = Eff(fs, [call |-> "unlink", path |-> PIn(b, n), res |-> "ok"], [inos |-> <<>>], 0)
          /\ last' = [e |-> "advdel", n |-> n]
    /\ aux' = [aux EXCEPT !.advs = @ + 1]
    /\ UNCHANGED <<clock, nino, pc, loc>>

Next ==
    \/ \E p \in Procs : Begin(p) \/ Trigger(p) \/ AgeCheck(p) \/ Internal(p) \/ Sys(p) \/ FailSys(p) \/ Return(p) \/ Crash(p)
    \/ AdvDelete

Spec == Init /\ [][Next]_vars

\* ---- properties (Props.tla, evaluated on the model) ---------------------------
InvDirValid == DirValid(Cfg, S)
InvDebris == DebrisConfined(Cfg, S)
\* every handle a lookup returned reads as a complete value supplied for that key (C01)
InvHandle == \A p \in DOMAIN aux.rets : LET r == aux.rets[p] IN
    r.api \in {"get", "ensure", "gou"} /\ r.ok /\ r.res = "some" /\ pc[p] = "ret" =>
        /\ r.hit \in DOMAIN fs.inos
        /\ ValueFor(fs.inos[r.hit].c, r.key)
        /\ <<r.key, fs.inos[r.hit].c.val>> \in aux.supplied
\* C05: nothing returns an error merely because of concurrent activity
InvNoErr == aux.errs = {}
\* C01/C03: published inodes are never written or re-moded; C02/C03: read-only before visible
StepImmutable == [][last'.e = "sys" => LET e == last' IN
                        (DataMutation(e) => Target(fs, e) \notin DOMAIN aux.pubs)]_vars
StepReadOnlyFirst == [][last'.e = "sys" => ReadOnlyFirst(Cfg, S, last')]_vars
\* C03 at design level: with auto_sync, what gets published into the write cache was flushed after its last write
StepDurableFirst == [][last'.e = "sys" /\ FrontKind = "stack" => DurableFirst(Cfg, S, last')]_vars
\* C15 at design level: nothing under the read-only root ever changes except access times
StepROUntouched == [][FrontKind = "stack" =>
                        /\ (RORoot \in DOMAIN fs.ents => RORoot \in DOMAIN fs'.ents /\ fs'.ents[RORoot] = fs.ents[RORoot])
                        /\ \A i \in {fs.ents[RORoot][n] : n \in DOMAIN fs.ents[RORoot]} :
                              i \in DOMAIN fs'.inos /\ SameButAtime(fs.inos[i], fs'.inos[i])]_vars
\* C06: a live participant in the middle of an operation always has a step of its own
InvNonBlocking == \A p \in Procs : Alive(p) /\ pc[p] \notin {"idle"} =>
                      ENABLED (Trigger(p) \/ AgeCheck(p) \/ Internal(p) \/ Sys(p) \/ Return(p))
\* C17 at design level: maintenance removes only key-named entries and stale (or its own) temp files
StepRemoval == [][last'.e = "sys" /\ last'.call = "unlink" /\ last'.res = "ok" /\ last'.ph = "lib" =>
                    LET d == DirOf(last'.path) i == Lookup(fs, last'.path) IN
                    \/ d \in BaseDirs /\ IsKeyName(last'.path.n)
                    \/ d = SrcDir /\ last'.path.n = loc[last'.p].tmp                  \* the value it staged itself
                    \/ IsTempDir(d) /\ (\/ last'.path.n = loc[last'.p].tmp          \* its own temporary file
                                        \/ TLt(<<fs.inos[i].mt[1] + MaxAge, 0>>, Tm(clock)))]_vars   \* or a stale one
\* C11 at design level (sequential use of a sharded root is a special case of every interleaving with one participant)
InvOneCopy == FrontKind = "sharded" /\ Cardinality(Procs) = 1 =>
                 \A k \in UNION {{Prog[p][i].key : i \in 1..Len(Prog[p])} : p \in Procs} :
                     Cardinality({b \in BaseDirs \cap DOMAIN fs.ents : k \in DOMAIN fs.ents[b]}) <= 1

\* C04 at design level (refinement of Register.tla under the mapping "value of k = value of the inode bound under k
\* in the first candidate directory that has it"): the abstract value of a key changes only at the linearization point
\* of a write -- set's rename (to the setter's value), put's successful link (only from absent) -- or by an eviction /
\* outside deletion.
AbsIn(f, b, k) == IF b \in DOMAIN f.ents /\ k \in DOMAIN f.ents[b] /\ f.ents[b][k] \in DOMAIN f.inos
                  THEN f.inos[f.ents[b][k]].c.val ELSE "none"
Abs(f, k) == LET d == KeyDirsOf(k) IN IF AbsIn(f, d[1], k) # "none" THEN AbsIn(f, d[1], k) ELSE AbsIn(f, d[2], k)
AllKeys == UNION {{Prog[p][i].key : i \in 1..Len(Prog[p])} : p \in Procs} \cup {e.key : e \in Pre}
StepRegister == [][FrontKind = "plain" => \A k \in AllKeys : LET a == Abs(fs, k) b == Abs(fs', k) IN
                    a # b =>
                       \/ last'.e = "sys" /\ last'.call = "rename" /\ last'.res = "ok" /\ last'.api = "set" /\ last'.path2.n = k
                          /\ b = loc[last'.p].op.val
                       \/ last'.e = "sys" /\ last'.call = "link" /\ last'.res = "ok" /\ last'.api = "put" /\ last'.path2.n = k
                          /\ a = "none" /\ b = loc[last'.p].op.val
                       \/ last'.e = "sys" /\ last'.call = "unlink" /\ last'.ph = "lib" /\ b = "none" /\ pc[last'.p] = "m7"
                       \/ last'.e = "advdel" /\ b = "none"]_vars
\* a lookup returns the value bound at its linearization point (the open): the handle it got is the inode bound then
StepGetLin == [][last'.e = "sys" /\ last'.api = "get" /\ last'.pcl = "g1" /\ last'.res = "ok" =>
                    fs.inos[last'.ino].c.val = AbsIn(fs, DirOf(last'.path), last'.path.n)]_vars

\* C13: a Replace answered for a hit returns the value this call populated, under every schedule
InvReplaceOwn == \A p \in DOMAIN aux.rets : LET r == aux.rets[p] IN
    r.api = "gou" /\ r.ok /\ pc[p] = "ret" /\ loc[p].wcont = "rep" =>
        r.hit \in DOMAIN fs.inos /\ fs.inos[r.hit].c.val = Op(p).val
\* ... and stores it: the only call that binds a Replace's key is its own rename of its own temporary file
StepReplaceStores == [][last'.e = "sys" /\ last'.api = "gou" /\ last'.call \in {"rename", "link"} /\ last'.res = "ok" /\ last'.ph = "lib" =>
                          LET q == last'.p IN
                          /\ (loc[q].wcont = "rep") = (last'.call = "rename")
                          /\ (last'.call = "rename" => AbsIn(fs', Root, last'.path2.n) = loc[q].op.val)]_vars
\* C20 at design level: the descriptors (files and directory streams) the library itself holds open in the middle of a call.  The
\* application's own temporary file (plain set / put: labels a3, a4; the epilogue d1..d3) is not the library's; ensure's temporary file
\* and the one handed to set_temp_file / put_temp_file are.  `hit` is the handle that will be returned (or the old file of a Replace);
\* during a lookup `fd` is that same descriptor.
LibFdCount(p) ==
    LET l == loc[p] api == l.op.api IN
    IF pc[p] \in {"idle", "ret"} THEN 0 ELSE
      (IF l.dfd # "" THEN 1 ELSE 0)
    + (IF l.hit # "" THEN 1 ELSE 0)
    + (IF l.fd # "" /\ (l.fd # l.hit \/ pc[p] \in {"eg2", "eg3", "ecl2"}) THEN 1 ELSE 0)
    + (IF pc[p] \in {"ms2", "ms3"} THEN 1 ELSE 0)
    + (IF l.tfd /\ (EnsureLike(api) \/ (TempFileApi(api) /\ pc[p] \notin {"a3", "a4"})) THEN 1 ELSE 0)
\* never more than two at once; three only while an ensure / get_or_update that already holds its return value runs a maintenance
\* (directory stream + the entry being re-stamped + the pre-opened return value)
InvFdBound == \A p \in Procs : LibFdCount(p) <= (IF loc[p].dfd # "" /\ loc[p].fd # "" /\ EnsureLike(loc[p].op.api) THEN 3 ELSE 2)
\* nothing stays open when a call returns, other than the handle it returns
InvNoResidue == \A p \in Procs : pc[p] = "ret" =>
                    LET l == loc[p] IN
                    /\ l.dfd = ""
                    /\ (l.fd = "" \/ (p \in DOMAIN aux.rets /\ aux.rets[p].ok /\ aux.rets[p].res = "some" /\ l.fd = aux.rets[p].hit))
                    /\ (l.hit = "" \/ (p \in DOMAIN aux.rets /\ aux.rets[p].ok /\ aux.rets[p].res = "some" /\ l.hit = aux.rets[p].hit))
                    /\ ~(l.tfd /\ (EnsureLike(l.op.api) \/ TempFileApi(l.op.api)))

\* C18 at design level (FaultBudget > 0).  No temporary file made for a finished operation of a live participant is left
\* behind, unless the failing call was the very unlink that should have removed it:
TempNamesOf(p) == {TmpNameL(p, [opi |-> i]) : i \in 1..Len(Prog[p])}
InvNoLeak == \A p \in Procs : Alive(p) /\ pc[p] = "idle" =>
                \A b \in BaseDirs : TDof(b) \in DOMAIN fs.ents =>
                    \A n \in DOMAIN fs.ents[TDof(b)] : n \in TempNamesOf(p) => n \in aux.unlinkfailed
\* an operation that reports success has achieved its effect (single participant: nobody can undo it before the return);
\* a failure that the code may swallow (a re-stamp or a removal that fails "absent") does not excuse a missing effect
InvFaultReported == Cardinality(Procs) = 1 => \A p \in Procs : pc[p] = "ret" /\ p \in DOMAIN aux.rets /\ aux.rets[p].ok =>
                        LET o == Op(p) IN
                        /\ SetLike(o.api) => Abs(fs, o.key) = o.val
                        /\ (o.api = "gou" /\ loc[p].wcont = "rep") => Abs(fs, o.key) = o.val
                        /\ o.api \in {"put", "put_tf", "ensure", "gou"} => Abs(fs, o.key) # "none"
\* errors are returned only by operations that were hit by a fault (C05 and C18 together)
InvErrOnlyIfFaulted == aux.errs = {}

\* Transition coverage (binding R-lite): the set of (label, call, result) edges of the control flow that are reachable in
\* a configuration, accumulated in a TLC register (run with -workers 1) and printed by the post-condition; the driver
\* compares it with the edges real executions took (TraceKismet prints the same triples).
CoverAC == (last'.e = "sys" => TLCSet(7, TLCGet(7) \cup {<<last'.pcl, last'.call, last'.res>>}))
CoverInit == TLCSet(7, {})

ViewF == <<fs, pc, loc, aux.pubs, aux.errs, aux.crashed, aux.advs, aux.rets, aux.dirty, aux.faults, aux.faulted, aux.fpoint>>
\* observation variables are kept out of the state space
View == <<fs, pc, loc, aux.pubs, aux.errs, aux.crashed, aux.advs, aux.rets, aux.dirty, aux.faults, aux.faulted>>
=============================================================================
