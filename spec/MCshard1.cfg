\* MODULE MCshard1
SPECIFICATION Spec
CONSTANTS
  Procs <- MCProcs
  Prog <- MCProg
  Cap = 1
  Maint = "nondet"
  DirsExist = TRUE
  Pre <- MCPre
  WriteFallback = FALSE
  CrashBudget = 0
  AdvBudget = 0
  Debris <- NoDebris
  PreRO <- NoPreRO
  FrontKind = "sharded"
  KeyShards <- MCKeyShards
  FaultBudget = 0
VIEW View
INVARIANTS InvDirValid InvDebris InvHandle InvNoErr InvOneCopy InvFdBound InvNoResidue
PROPERTIES StepImmutable StepReadOnlyFirst StepRemoval StepGetLin
CHECK_DEADLOCK FALSE
