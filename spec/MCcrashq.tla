---- MODULE MCcrashq ----
(* One participant may crash at any point of a set/put; a survivor then looks the key up and writes (C02). *)
EXTENDS Kismet
MCProcs == {1, 2}
MCProg == (1 :> <<[api |-> "set", key |-> "k", val |-> "a", chunks |-> 2]>>) @@
          (2 :> <<[api |-> "get", key |-> "k", val |-> "", chunks |-> 0], [api |-> "put", key |-> "k", val |-> "b", chunks |-> 1]>>)
MCPre == {[key |-> "k", val |-> "old"]}
NoDebris == {}
NoKeyShards == <<>>
NoPreRO == {}
====
