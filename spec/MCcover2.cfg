\* MODULE MCcover2
SPECIFICATION Spec
CONSTANTS
  Procs <- MCProcs
  Prog <- MCProg
  Cap = 1
  Maint = "nondet"
  DirsExist = FALSE
  Pre <- MCPre
  WriteFallback = FALSE
  CrashBudget = 0
  AdvBudget = 2
  Debris <- NoDebris
  PreRO <- NoPreRO
  FrontKind = "plain"
  KeyShards <- NoKeyShards
  FaultBudget = 0
VIEW View
ACTION_CONSTRAINT CoverAC
POSTCONDITION CoverPost
INVARIANTS InvDirValid InvNoErr
CHECK_DEADLOCK FALSE
