\* MODULE Trigger
SPECIFICATION Spec
CONSTANTS
  W = 5
INVARIANTS TypeOK WindowBound AlwaysFires NonZero
CHECK_DEADLOCK FALSE
