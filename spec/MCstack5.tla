---- MODULE MCstack5 ----
(* Stacked cache, get_or_update with a judge: Replace of a hit in the write cache racing a set and a lookup of the same  *)
(* key, and Replace of a read-only hit racing an ensure.  A Replace answered for a hit returns and stores the value it  *)
(* populated under every schedule (InvReplaceOwn, StepReplaceStores); nothing unsynced is published; the read-only     *)
(* level is never modified.                                                                                            *)
EXTENDS Kismet
MCProcs == {1, 2}
MCProg == (1 :> <<[api |-> "gou", key |-> "k", val |-> "a", chunks |-> 1, judge |-> "replace"],
                  [api |-> "gou", key |-> "k2", val |-> "c", chunks |-> 1, judge |-> "replace"]>>) @@
          (2 :> <<[api |-> "set", key |-> "k", val |-> "b", chunks |-> 1], [api |-> "ensure", key |-> "k2", val |-> "d", chunks |-> 1]>>)
MCPre == {[key |-> "k", val |-> "old"]}
MCPreRO == {[key |-> "k2", val |-> "ro"]}
NoDebris == {}
NoKeyShards == <<>>
====
