---- MODULE MCtouchput ----
(* touch || put on an absent key: exhibits (WriteFallback = TRUE) or excludes (FALSE) the EACCES race. *)
EXTENDS Kismet
MCProcs == {1, 2}
MCProg == (1 :> <<[api |-> "touch", key |-> "k", val |-> "", chunks |-> 0]>>) @@
          (2 :> <<[api |-> "put", key |-> "k", val |-> "b", chunks |-> 1]>>)
MCPre == {}
NoDebris == {}
NoKeyShards == <<>>
NoPreRO == {}
====
