---- MODULE MCcrash ----
(* As MCcrashq, with maintenance on every write and a tiny capacity: a crash may land inside prune / temp cleanup. *)
EXTENDS Kismet
MCProcs == {1, 2}
MCProg == (1 :> <<[api |-> "put", key |-> "k3", val |-> "a", chunks |-> 1]>>) @@
          (2 :> <<[api |-> "set", key |-> "k1", val |-> "b", chunks |-> 1], [api |-> "get", key |-> "k2", val |-> "", chunks |-> 0]>>)
MCPre == {[key |-> "k1", val |-> "o1"], [key |-> "k2", val |-> "o2"]}
MCDebris == {[name |-> "old", age |-> 4000]}
NoKeyShards == <<>>
NoPreRO == {}
====
