------------------------------- MODULE PosixFS -------------------------------
(***************************************************************************)
(* The part of a POSIX filesystem that kismet-cache relies on, as pure      *)
(* operators over an explicit state record.  The same operators are used    *)
(*   - by Kismet.tla (design-level model checking: the protocol's actions   *)
(*     are compositions of these calls), and                                *)
(*   - by TraceProps.tla (trace validation: every system call recorded by   *)
(*     the ptrace tracer is replayed through Eff, and the result is         *)
(*     compared with the directory snapshot the tracer took after the call).*)
(*                                                                         *)
(* State  fs == [ents |-> [DirId -> [Name -> InoId \cup {"DIR"}]],          *)
(*               inos |-> [InoId -> [mode, at, mt, nlink, c]]]              *)
(* DirId is a path relative to the world top ("." is the top itself);       *)
(* timestamps are <<sec, nsec>> pairs (TLC integers are 32 bit); `c` is the *)
(* decoded content of the file (see harness/src/content.rs).                *)
(*                                                                         *)
(* A call is a record shaped like the tracer's "sys" events:                *)
(*   [call, res, path |-> [d, n], path2, fd, ino, flags, cmode, at, mt, ..] *)
(* Kernel-chosen values (new inode ids, "now" stamps, the bytes a write     *)
(* stored) are supplied by the caller in `obs`, a state of the same shape   *)
(* as fs: the snapshot in trace mode, the model's own choice in MC mode.    *)
(***************************************************************************)
EXTENDS Naturals, Integers, Sequences, FiniteSets, SequencesExt, TLC

Has(r, f) == f \in DOMAIN r

\* ---- time ---------------------------------------------------------------
TLt(a, b) == a[1] < b[1] \/ (a[1] = b[1] /\ a[2] < b[2])
TLe(a, b) == a = b \/ TLt(a, b)
TFloor(t, g) == IF g = 0 THEN t ELSE <<t[1] - (t[1] % g), 0>>

\* ---- names --------------------------------------------------------------
Suffix(s, k) == IF Len(s) >= k THEN SubSeq(s, Len(s) - k + 1, Len(s)) ELSE ""
IsTempDir(d) == Suffix(d, 12) = ".kismet_temp"
FirstChar(n) == IF Len(n) = 0 THEN "" ELSE SubSeq(n, 1, 1)
IsKeyName(n) == Len(n) > 0 /\ FirstChar(n) \notin {".", "/", "\\"}
IsKismetName(n) == IsPrefix(".kismet", n)
Under(d, root) == d = root \/ IsPrefix(root \o "/", d)

DirOf(pth) == IF pth.d = "" THEN "." ELSE pth.d
DirId(pth) == IF pth.d = "" THEN "." ELSE IF pth.d = "." THEN pth.n ELSE pth.d \o "/" \o pth.n
Outside(pth) == pth.d = "OUTSIDE"

\* ---- lookups ------------------------------------------------------------
EmptyFS == [ents |-> ("." :> <<>>), inos |-> <<>>]
DirExists(fs, d) == d \in DOMAIN fs.ents
Lookup(fs, pth) ==
    IF pth.d = "" THEN "DIR"
    ELSE IF DirExists(fs, pth.d) /\ pth.n \in DOMAIN fs.ents[pth.d] THEN fs.ents[pth.d][pth.n]
    ELSE "NONE"
IsFile(fs, pth) == Lookup(fs, pth) \notin {"NONE", "DIR"}

Linked(fs) == {fs.ents[d][n] : <<d, n>> \in UNION {{<<d, n>> : n \in DOMAIN fs.ents[d]} : d \in DOMAIN fs.ents}} \ {"DIR"}
\* The observable projection: what a directory walk can see.
Obs(fs) == [ents |-> fs.ents, inos |-> [i \in Linked(fs) \cap DOMAIN fs.inos |-> fs.inos[i]]]

LinkCount(fs, i) == Cardinality({<<d, n>> \in UNION {{<<d, n>> : n \in DOMAIN fs.ents[d]} : d \in DOMAIN fs.ents} : fs.ents[d][n] = i})

\* ---- state updates ------------------------------------------------------
Bind(fs, d, n, v) == [fs EXCEPT !.ents[d] = (n :> v) @@ @]
Unbind(fs, d, n) == [fs EXCEPT !.ents[d] = [x \in (DOMAIN @) \ {n} |-> @[x]]]
PutIno(fs, i, rec) == [fs EXCEPT !.inos = (i :> rec) @@ @]
SetNlink(fs, i) == IF i \in DOMAIN fs.inos THEN [fs EXCEPT !.inos[i].nlink = LinkCount(fs, i)] ELSE fs
AddDir(fs, d) == [fs EXCEPT !.ents = (d :> <<>>) @@ @]
DelDir(fs, d) == [fs EXCEPT !.ents = [x \in (DOMAIN @) \ {d} |-> @[x]]]

ModeBit(m, bit) == (m \div bit) % 2 = 1      \* bit is a power of two
Writable(m) == ModeBit(m, 128) \/ ModeBit(m, 16) \/ ModeBit(m, 2)
OwnerW(m) == ModeBit(m, 128)
OwnerR(m) == ModeBit(m, 256)

EmptyContent == [kind |-> "empty", len |-> 0]

\* Value supplied by the kernel / observed: field f of inode i in obs, else dflt.
ObsField(obs, i, f, dflt) == IF i \in DOMAIN obs.inos /\ f \in DOMAIN obs.inos[i] THEN obs.inos[i][f] ELSE dflt

FlagSet(c) == IF Has(c, "flags") THEN {c.flags[k] : k \in 1..Len(c.flags)} ELSE {}

\* The inode a call acts on: via descriptor (the tracer resolved it) or via path.
Target(fs, c) ==
    IF Has(c, "via") /\ c.via = "fd" THEN (IF Has(c, "ino") THEN c.ino ELSE "DIR")
    ELSE IF Has(c, "path") THEN Lookup(fs, c.path) ELSE "NONE"

(***************************************************************************)
(* Pred: the set of results the model allows for a call in state fs made by *)
(* an unprivileged process ({"ANY"} = not modelled).  Used to cross-check    *)
(* the observation pipeline, and by Kismet.tla to decide each call's result.*)
(***************************************************************************)
MissingDirRes == {"ENOENT", "ENOTDIR"}
\* paths the tracer could only resolve lexically ("..", ".", empty components) are not predicted
Lexical(pth) == Has(pth, "lex")
PathPred(fs, pth, present, absent) ==
    IF Outside(pth) \/ Lexical(pth) THEN {"ANY"}
    ELSE IF ~DirExists(fs, DirOf(pth)) THEN MissingDirRes
    ELSE IF Len(pth.n) > 255 THEN {"ENAMETOOLONG", "ENOENT"}
    ELSE IF Lookup(fs, pth) = "NONE" THEN absent ELSE present

Pred(fs, c, privileged) ==
    IF Has(c, "inj") THEN {"ANY"}
    ELSE IF c.call = "open" THEN
        LET fl == FlagSet(c) tgt == Lookup(fs, c.path) IN
        IF Outside(c.path) \/ Lexical(c.path) THEN {"ANY"}
        ELSE IF "TMPFILE" \in fl THEN (IF tgt = "DIR" THEN {"ok"} ELSE MissingDirRes)
        ELSE IF ~DirExists(fs, DirOf(c.path)) THEN MissingDirRes
        ELSE IF Len(c.path.n) > 127 /\ tgt = "NONE" THEN {"ENAMETOOLONG", "ENOENT", "ok"}   \* byte length unknown (non-ASCII)
        ELSE IF tgt = "NONE" THEN (IF "CREAT" \in fl THEN {"ok"} ELSE {"ENOENT"})
        ELSE IF "CREAT" \in fl /\ "EXCL" \in fl THEN {"EEXIST"}
        ELSE IF tgt = "DIR" THEN (IF "WRONLY" \in fl \/ "RDWR" \in fl THEN {"EISDIR"} ELSE {"ok"})
        ELSE IF "DIRECTORY" \in fl THEN {"ENOTDIR"}
        ELSE IF tgt \notin DOMAIN fs.inos THEN {"ANY"}
        ELSE IF ~privileged /\ ("WRONLY" \in fl \/ "RDWR" \in fl) /\ ~OwnerW(fs.inos[tgt].mode) THEN {"EACCES"}
        ELSE IF ~privileged /\ ("RDONLY" \in fl \/ "RDWR" \in fl) /\ ~OwnerR(fs.inos[tgt].mode) THEN {"EACCES"}
        ELSE {"ok"}
    ELSE IF c.call = "link" THEN
        IF Outside(c.path) \/ Outside(c.path2) \/ Lexical(c.path) \/ Lexical(c.path2) THEN {"ANY"}
        ELSE IF ~DirExists(fs, DirOf(c.path)) \/ Lookup(fs, c.path) = "NONE" THEN MissingDirRes
        ELSE IF Lookup(fs, c.path) = "DIR" THEN {"EPERM"}
        ELSE PathPred(fs, c.path2, {"EEXIST"}, {"ok"})
    ELSE IF c.call = "rename" THEN
        IF Outside(c.path) \/ Outside(c.path2) \/ Lexical(c.path) \/ Lexical(c.path2) THEN {"ANY"}
        ELSE IF ~DirExists(fs, DirOf(c.path)) \/ Lookup(fs, c.path) = "NONE" THEN MissingDirRes
        ELSE IF Lookup(fs, c.path) = "DIR" \/ Lookup(fs, c.path2) = "DIR" THEN {"ANY"}
        ELSE PathPred(fs, c.path2, {"ok"}, {"ok"})
    ELSE IF c.call = "unlink" THEN
        IF Lookup(fs, c.path) = "DIR" /\ ~Outside(c.path) THEN {"EISDIR"} ELSE PathPred(fs, c.path, {"ok"}, {"ENOENT"})
    ELSE IF c.call = "mkdir" THEN PathPred(fs, c.path, {"EEXIST"}, {"ok"})
    ELSE IF c.call = "rmdir" THEN {"ANY"}
    ELSE IF c.call \in {"stat", "chmod", "utimens", "truncate", "access"} /\ Has(c, "path") THEN
        PathPred(fs, c.path, {"ok"}, {"ENOENT"})
    ELSE IF c.call \in {"symlink", "chown", "lock"} THEN {"ANY"}
    ELSE {"ok"}

PredOK(fs, c, privileged) == LET s == Pred(fs, c, privileged) IN "ANY" \in s \/ c.res \in s

(***************************************************************************)
(* Eff: the state after call c (whose result is c.res).  A failed call has  *)
(* no effect on ents/inos.                                                  *)
(***************************************************************************)
NewInode(obs, i, mode) ==
    [mode |-> ObsField(obs, i, "mode", mode), at |-> ObsField(obs, i, "at", <<0, 0>>),
     mt |-> ObsField(obs, i, "mt", <<0, 0>>), nlink |-> 1, c |-> ObsField(obs, i, "c", EmptyContent)]

\* kind \in {"set", "omit", "now", "unknown"}; val is only meaningful for "set"
SetTime(old, kind, val, obsv, g) ==
    IF kind = "omit" THEN old ELSE IF kind = "set" THEN TFloor(val, g) ELSE obsv

Eff(fs, c, obs, gran) ==
    IF c.res # "ok" THEN fs
    ELSE IF c.call = "open" THEN
        LET fl == FlagSet(c) IN
        IF Outside(c.path) THEN fs
        ELSE IF "TMPFILE" \in fl THEN
            (IF Has(c, "ino") THEN PutIno(fs, c.ino, [NewInode(obs, c.ino, c.cmode) EXCEPT !.nlink = 0]) ELSE fs)
        ELSE IF "CREAT" \in fl /\ Lookup(fs, c.path) = "NONE" /\ Has(c, "ino") THEN
            Bind(PutIno(fs, c.ino, NewInode(obs, c.ino, c.cmode)), DirOf(c.path), c.path.n, c.ino)
        ELSE IF "TRUNC" \in fl /\ Has(c, "ino") /\ c.ino \in DOMAIN fs.inos THEN
            [fs EXCEPT !.inos[c.ino].c = ObsField(obs, c.ino, "c", EmptyContent),
                       !.inos[c.ino].mt = ObsField(obs, c.ino, "mt", @)]
        ELSE fs
    ELSE IF c.call \in {"write", "copy", "truncate"} THEN
        LET i == Target(fs, c)
            \* copy_file_range / sendfile read their source: its atime may advance
            src == IF c.call = "copy" /\ Has(c, "ino2") THEN c.ino2 ELSE "NONE"
            f1 == IF src \in DOMAIN fs.inos THEN [fs EXCEPT !.inos[src].at = ObsField(obs, src, "at", @)] ELSE fs
        IN
        IF i \in DOMAIN f1.inos THEN
            [f1 EXCEPT !.inos[i].c = ObsField(obs, i, "c", [kind |-> "unknown"]),
                       !.inos[i].mt = ObsField(obs, i, "mt", @),
                       !.inos[i].at = ObsField(obs, i, "at", @)]
        ELSE f1
    ELSE IF c.call = "read" THEN
        LET i == Target(fs, c) IN
        IF i \in DOMAIN fs.inos THEN [fs EXCEPT !.inos[i].at = ObsField(obs, i, "at", @)] ELSE fs
    ELSE IF c.call = "chmod" THEN
        LET i == Target(fs, c) IN
        IF i \in DOMAIN fs.inos THEN [fs EXCEPT !.inos[i].mode = c.cmode] ELSE fs
    ELSE IF c.call = "utimens" THEN
        LET i == Target(fs, c) IN
        IF i \in DOMAIN fs.inos THEN
            [fs EXCEPT !.inos[i].at = SetTime(@, c.atk, IF c.atk = "set" THEN c.at ELSE <<0, 0>>, ObsField(obs, i, "at", @), gran),
                       !.inos[i].mt = SetTime(@, c.mtk, IF c.mtk = "set" THEN c.mt ELSE <<0, 0>>, ObsField(obs, i, "mt", @), gran)]
        ELSE fs
    ELSE IF c.call = "link" THEN
        IF Outside(c.path) \/ Outside(c.path2) THEN fs
        ELSE LET i == Lookup(fs, c.path) IN SetNlink(Bind(fs, DirOf(c.path2), c.path2.n, i), i)
    ELSE IF c.call = "rename" THEN
        IF Outside(c.path) \/ Outside(c.path2) THEN fs
        ELSE LET i == Lookup(fs, c.path)
                 old == Lookup(fs, c.path2)
                 f1 == IF i = old THEN fs ELSE Unbind(Bind(fs, DirOf(c.path2), c.path2.n, i), DirOf(c.path), c.path.n)
             IN IF i = "DIR" THEN obs    \* directory renames are not modelled: trust the observation
                ELSE IF old \notin {"NONE", "DIR"} THEN SetNlink(f1, old) ELSE f1
    ELSE IF c.call = "unlink" THEN
        IF Outside(c.path) THEN fs
        ELSE LET i == Lookup(fs, c.path) IN SetNlink(Unbind(fs, DirOf(c.path), c.path.n), i)
    ELSE IF c.call = "mkdir" THEN
        IF Outside(c.path) THEN fs ELSE AddDir(Bind(fs, DirOf(c.path), c.path.n, "DIR"), DirId(c.path))
    ELSE IF c.call = "rmdir" THEN
        IF Outside(c.path) THEN fs ELSE DelDir(Unbind(fs, DirOf(c.path), c.path.n), DirId(c.path))
    ELSE fs

=============================================================================
