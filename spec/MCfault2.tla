---- MODULE MCfault2 ----
(* C18 x C01/C05: a fault in one participant's operation while a peer works on the same key. *)
EXTENDS Kismet
MCProcs == {1, 2}
MCProg == (1 :> <<[api |-> "set", key |-> "k1", val |-> "a", chunks |-> 1]>>) @@
          (2 :> <<[api |-> "put", key |-> "k1", val |-> "b", chunks |-> 1], [api |-> "get", key |-> "k1", val |-> "", chunks |-> 0]>>)
MCPre == {[key |-> "k2", val |-> "o2"]}
NoDebris == {}
NoKeyShards == <<>>
NoPreRO == {}
====
