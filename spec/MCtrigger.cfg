\* MODULE Trigger
SPECIFICATION Spec
CONSTANTS
  W = 6
INVARIANTS TypeOK WindowBound AlwaysFires NonZero
CHECK_DEADLOCK FALSE
