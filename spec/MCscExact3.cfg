\* MODULE MCSC
INIT Init
NEXT Next
CONSTANTS
  N = 3
  Ranks = {0, 1, 2}
  CheckExact = TRUE
INVARIANTS Exact
CHECK_DEADLOCK FALSE
