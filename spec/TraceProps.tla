----------------------------- MODULE TraceProps -----------------------------
(***************************************************************************)
(* Trace validation: every execution of the real library recorded by        *)
(* kv-tracer (ndjson, runs separated by `reset` events) is replayed, one    *)
(* TLC step per event:                                                      *)
(*   - each recorded system call goes through PosixFS!Pred / PosixFS!Eff    *)
(*     and the result is compared with the snapshot the tracer took after   *)
(*     the call (a mismatch is recorded in `fsmis`: the filesystem model,   *)
(*     or the recorder, is wrong -- never a verdict about the library);     *)
(*   - every monitor of Props.tla selected in the configuration is          *)
(*     evaluated at every step; failures are accumulated in `viol`.         *)
(* At each `endrun` the verdict of the run is printed for the driver.       *)
(* Acceptance: POSTCONDITION checks that every line was consumed.           *)
(***************************************************************************)
EXTENDS Props, Json, IOUtils

Rec == ndJsonDeserialize(IOEnv.TRACE)
KvCfg == JsonDeserialize(IOEnv.KVCFG)
Active == SeqSet(KvCfg.monitors)

VARIABLES l, st, stats

NoRun == [job |-> "", run |-> 0]
Fresh(e) ==
    [run |-> [job |-> e.job, run |-> e.run],
     cfg |-> IF Has(e, "cfg") THEN e.cfg ELSE [roots |-> <<>>],
     gran |-> e.gran, atime |-> e.atime,
     fs |-> [ents |-> e.snap.ents, inos |-> e.snap.inos],
     fds |-> <<>>, dirty |-> {}, syncfail |-> {}, pubs |-> <<>>, supplied |-> {}, planted |-> {},
     cur |-> <<>>, steps |-> <<>>, listed |-> <<>>, tlisted |-> <<>>, created |-> <<>>, opfds |-> <<>>, opens |-> <<>>,
     faulted |-> <<>>, faultcall |-> <<>>, unlinkfailed |-> <<>>, prune |-> <<>>, lastset |-> <<>>, lastok |-> <<>>, maybeset |-> <<>>, lastret |-> <<>>, absmap |-> <<>>, atcall |-> <<>>, pruned |-> <<>>, plisted |-> <<>>, tattempt |-> <<>>, published |-> <<>>, plistedAfter |-> <<>>,
     viol |-> {}, fsmis |-> {}, nsys |-> 0]

InitSt == Fresh([job |-> "", run |-> 0, gran |-> 0, atime |-> "relatime", snap |-> EmptyFS])

\* ---- auxiliary state ------------------------------------------------------
NewPubs(cfg, fs, pubs) ==
    LET cands == {<<d, n>> \in UNION {{<<d, n>> : n \in DOMAIN fs.ents[d]} : d \in {x \in DOMAIN fs.ents : IsCacheDir(cfg, x)}} :
                    IsKeyName(n) /\ fs.ents[d][n] # "DIR" /\ fs.ents[d][n] \notin DOMAIN pubs}
    IN [i \in {fs.ents[c[1]][c[2]] : c \in cands} |-> TRUE] @@ pubs

Resync(m, sn, fds) ==
    LET held == UNION {{fds[p][fd].ino : fd \in DOMAIN fds[p]} : p \in DOMAIN fds}
        orphans == {i \in DOMAIN m.inos : i \notin DOMAIN sn.inos /\ i \in held}
    IN [ents |-> sn.ents, inos |-> sn.inos @@ [i \in orphans |-> m.inos[i]]]

FdsAfter(s, e) ==
    LET p == e.p mine == Get(s.fds, p, <<>>) IN
    IF e.call = "open" /\ e.res = "ok" THEN
        Put(s.fds, p, Put(mine, e.fd, [ino |-> IF Has(e, "ino") THEN e.ino ELSE "DIR",
                                        dir |-> IF Has(e, "isdir") THEN DirId(e.path) ELSE "",
                                        acc |-> IF "RDWR" \in FlagSet(e) THEN "rw" ELSE IF "WRONLY" \in FlagSet(e) THEN "w" ELSE "r",
                                        ph |-> e.ph, opi |-> e.opi]))
    ELSE IF e.call = "close" /\ e.fd \in DOMAIN mine THEN Put(s.fds, p, Del(mine, e.fd))
    ELSE s.fds

InLib(e) == e.ph \in {"lib", "cb"}

SysStep(s, e) ==
    LET sn == IF Has(e, "snap") THEN e.snap ELSE Obs(s.fs)
        m == Eff(s.fs, e, sn, s.gran)
        \* (PosixFS has no symbolic links: the call that plants one -- a world-building step -- is taken from the snapshot)
        predok == e.call = "symlink" \/ PredOK(s.fs, e, FALSE)
        effok == e.call = "symlink" \/ Obs(m) = sn
        fds2 == FdsAfter(s, e)
        fs2 == Resync(m, sn, fds2)
        p == e.p
        tgt == Target(s.fs, e)
        dirty2 == IF e.res = "ok" /\ e.call \in {"write", "copy", "truncate"} THEN s.dirty \cup {tgt}
                  ELSE IF e.res = "ok" /\ e.call = "fsync" THEN s.dirty \ {tgt} ELSE s.dirty
        syncfail2 == IF e.res # "ok" /\ e.call = "fsync" THEN s.syncfail \cup {tgt} ELSE s.syncfail
        created2 == IF e.call = "open" /\ e.res = "ok" /\ Has(e, "ino") /\ FlagSet(e) \cap {"CREAT", "TMPFILE"} # {} /\ e.ph # "world"
                    THEN Put(s.created, p, Get(s.created, p, {}) \cup {e.ino}) ELSE s.created
        planted2 == IF e.ph = "world" /\ e.res = "ok" /\ e.call = "open" /\ "CREAT" \in FlagSet(e) /\ ~Outside(e.path)
                    THEN s.planted \cup (IF IsKeyName(e.path.n) THEN {} ELSE {<<DirOf(e.path), e.path.n>>})
                    ELSE IF e.ph = "world" /\ e.res = "ok" /\ e.call = "mkdir" /\ ~Outside(e.path)
                    THEN s.planted \cup {<<DirOf(e.path), e.path.n>>} ELSE s.planted
        steps2 == IF InLib(e) THEN Put(s.steps, p, Get(s.steps, p, 0) + 1) ELSE s.steps
        listed2 == IF InLib(e) /\ e.call = "getdents" /\ e.res = "ok" THEN Put(s.listed, p, Get(s.listed, p, 0) + Len(e.names)) ELSE s.listed
        tlisted2 == IF InLib(e) /\ e.call = "getdents" /\ e.res = "ok" /\ Has(e, "fdpath") /\ IsKismetTemp(s.cfg, DirId(e.fdpath))
                    THEN Put(s.tlisted, p, Get(s.tlisted, p, {}) \cup {DirId(e.fdpath)}) ELSE s.tlisted
        plisted2 == IF InLib(e) /\ e.call = "getdents" /\ e.res = "ok" /\ Has(e, "fdpath") /\ IsCacheDir(s.cfg, DirId(e.fdpath))
                    THEN Put(s.plisted, p, Get(s.plisted, p, {}) \cup {DirId(e.fdpath)}) ELSE s.plisted
        tattempt2 == IF InLib(e) /\ e.call = "open" /\ Has(e, "path") /\ "DIRECTORY" \in FlagSet(e) /\ IsKismetTemp(s.cfg, DirId(e.path))
                     THEN Put(s.tattempt, p, Get(s.tattempt, p, {}) \cup {DirId(e.path)}) ELSE s.tattempt
        \* after its own publication an operation only maintains: listings of cache directories from then on
        published2 == IF InLib(e) /\ e.call \in {"rename", "link"} /\ e.res = "ok" /\ Has(e, "path2") /\ IsCacheDir(s.cfg, DirOf(e.path2))
                      THEN Put(s.published, p, TRUE) ELSE s.published
        plistedAfter2 == IF InLib(e) /\ e.call = "getdents" /\ e.res = "ok" /\ Has(e, "fdpath") /\ IsCacheDir(s.cfg, DirId(e.fdpath)) /\ Get(s.published, p, FALSE)
                         THEN Put(s.plistedAfter, p, Get(s.plistedAfter, p, {}) \cup {DirId(e.fdpath)}) ELSE s.plistedAfter
        opfds2 == IF InLib(e) /\ e.call = "open" /\ e.res = "ok" THEN Put(s.opfds, p, Get(s.opfds, p, {}) \cup {e.fd})
                  ELSE IF e.call = "close" THEN Put(s.opfds, p, Get(s.opfds, p, {}) \ {e.fd}) ELSE s.opfds
        opens2 == IF InLib(e) /\ e.call = "open" /\ ~Outside(e.path)
                  THEN Put(s.opens, p, Put(Get(s.opens, p, <<>>), DirOf(e.path), Get(Get(s.opens, p, <<>>), DirOf(e.path), 0) + 1))
                  ELSE s.opens
        faulted2 == IF Has(e, "inj") THEN Put(s.faulted, p, e.opi) ELSE s.faulted
        faultcall2 == IF Has(e, "inj") THEN Put(s.faultcall, p, e.call) ELSE s.faultcall
        unlinkfailed2 == IF e.call = "unlink" /\ e.res \notin {"ok", "ENOENT"} /\ tgt \notin {"NONE", "DIR"}
                         THEN Put(s.unlinkfailed, p, Get(s.unlinkfailed, p, {}) \cup {tgt}) ELSE s.unlinkfailed
        prune2 == IF InLib(e) /\ e.call = "open" /\ e.res = "ok" /\ Has(e, "isdir") /\ IsCacheDir(s.cfg, DirId(e.path))
                  THEN Put(s.prune, p, [d |-> DirId(e.path), fs |-> s.fs, fd |-> e.fd, van |-> {}, rs |-> {}])
                  \* a re-stamp (modification time set) of an entry of the directory under maintenance
                  ELSE IF InLib(e) /\ e.call = "utimens" /\ e.res = "ok" /\ Has(e, "mtk") /\ e.mtk = "set" /\ Has(e, "fdpath") /\ p \in DOMAIN s.prune
                          /\ e.fdpath.d = s.prune[p].d
                  THEN Put(s.prune, p, [s.prune[p] EXCEPT !.rs = @ \cup {e.fdpath.n}])
                  ELSE s.prune
        pruned2 == IF InLib(e) /\ e.call = "open" /\ e.res = "ok" /\ Has(e, "isdir") /\ IsCacheDir(s.cfg, DirId(e.path))
                   THEN Put(s.pruned, p, TRUE) ELSE s.pruned
        \* an eviction (or any removal of a key-named entry by the library) takes the key out of the abstract map
        absmap2 == IF InLib(e) /\ e.call = "unlink" /\ e.res = "ok" /\ ~Outside(e.path) /\ IsWCacheDir(s.cfg, DirOf(e.path))
                      /\ e.path.n \in DOMAIN s.absmap
                   THEN Del(s.absmap, e.path.n) ELSE s.absmap
        supplied2 == s.supplied \cup
            (IF e.ph = "world" /\ e.call \in {"write"} /\ tgt \in DOMAIN fs2.inos /\ Has(fs2.inos[tgt].c, "key")
             THEN {<<fs2.inos[tgt].c.key, fs2.inos[tgt].c.val>>} ELSE {})
    IN [s EXCEPT !.fs = fs2, !.fds = fds2, !.dirty = dirty2, !.syncfail = syncfail2,
                 !.pubs = NewPubs(s.cfg, fs2, s.pubs), !.created = created2, !.planted = planted2,
                 !.steps = steps2, !.listed = listed2, !.tlisted = tlisted2, !.opfds = opfds2, !.opens = opens2,
                 !.faulted = faulted2, !.faultcall = faultcall2, !.unlinkfailed = unlinkfailed2, !.supplied = supplied2,
                 !.prune = prune2, !.pruned = pruned2, !.plisted = plisted2, !.tattempt = tattempt2, !.published = published2, !.plistedAfter = plistedAfter2, !.absmap = absmap2, !.nsys = @ + 1,
                 !.fsmis = @ \cup (IF predok THEN {} ELSE {<<e.seq, "pred">>}) \cup (IF effok THEN {} ELSE {<<e.seq, "eff">>})]

ExtStep(s, e) ==    \* crash / age / adversary / mark: trust the snapshot
    LET sn == IF Has(e, "snap") THEN e.snap ELSE Obs(s.fs)
        fds2 == IF e.e = "crash" THEN Del(s.fds, e.p) ELSE s.fds
        fs2 == Resync(s.fs, sn, fds2)
        \* an entry removed by the outside party while a maintenance of its directory is under way
        prune2 == IF e.e = "advdel" /\ Has(e, "path") THEN
                      [q \in DOMAIN s.prune |-> IF s.prune[q].d = DirOf(e.path) THEN [s.prune[q] EXCEPT !.van = @ \cup {e.path.n}] ELSE s.prune[q]]
                  ELSE s.prune
    IN [s EXCEPT !.fs = fs2, !.fds = fds2, !.pubs = NewPubs(s.cfg, fs2, s.pubs), !.prune = prune2,
                 !.planted = IF e.e = "mark" THEN @ ELSE @]

CallStep(s, e) ==
    LET p == e.p IN
    [s EXCEPT !.cur = Put(@, p, e), !.steps = Put(@, p, 0), !.listed = Put(@, p, 0), !.tlisted = Put(@, p, {}),
              !.created = Put(@, p, {}), !.opfds = Put(@, p, {}), !.opens = Put(@, p, <<>>),
              !.unlinkfailed = Put(@, p, {}), !.atcall = Put(@, p, s.fs), !.pruned = Put(@, p, FALSE), !.plisted = Put(@, p, {}), !.tattempt = Put(@, p, {}), !.published = Put(@, p, FALSE), !.plistedAfter = Put(@, p, {}),
              !.supplied = @ \cup (IF Has(e, "val") /\ Has(e, "key") THEN {<<e.key, e.val>>} ELSE {})]

GoneStep(s, e) == [s EXCEPT !.fds = Del(@, e.p)]

AbsAfter(s, e) ==
    \* the abstract map after a returned operation: latest set, else first put since the key was last absent; minus evicted keys
    LET present == PresentKeys(s.cfg, s.fs)
        m0 == [k \in (DOMAIN s.absmap) \cap present |-> s.absmap[k]]
        c == IF e.p \in DOMAIN s.cur THEN s.cur[e.p] ELSE <<>>
    IN IF ~e.ok \/ ~Has(c, "key") \/ ~Has(c, "val") \/ c.key \notin present THEN m0
       ELSE IF e.api \in {"set", "set_tf"} \/ (e.api = "gou" /\ Has(c, "judge") /\ c.judge = "replace") THEN Put(m0, c.key, c.val)
       \* (ensure / gou on a key held by a read-only level promotes that level's copy, not c.val: present, value "?" = any)
       ELSE IF e.api \in {"ensure", "gou"} /\ Has(s.cfg, "rokeys") /\ c.key \in SeqSet(s.cfg.rokeys) THEN
            (IF c.key \in DOMAIN m0 THEN m0 ELSE Put(m0, c.key, "?"))
       ELSE IF e.api \in {"put", "put_tf", "ensure", "gou"} /\ c.key \notin DOMAIN m0 THEN Put(m0, c.key, c.val)
       ELSE m0

RetStep(s, e) ==
    LET s1 == [s EXCEPT !.lastok = Put(@, e.p, e.ok), !.lastret = Put(@, e.p, e), !.absmap = AbsAfter(s, e)] IN
    IF e.p \in DOMAIN s.cur /\ Has(s.cur[e.p], "val") /\ Has(s.cur[e.p], "key") THEN
        LET k == s.cur[e.p].key v == s.cur[e.p].val
            \* (a get_or_update(Replace) that was hit by a fault may have taken the miss path -- a stale handle means "gone" --
            \* and then behaves like ensure: its value is stored only if the key was free)
            isset == e.api \in {"set", "set_tf"} \/ (e.api = "gou" /\ Has(s.cur[e.p], "judge") /\ s.cur[e.p].judge = "replace"
                                                       /\ ~(e.p \in DOMAIN s.faulted /\ s.faulted[e.p] = e.opi))
        IN
        IF isset /\ e.ok THEN [s1 EXCEPT !.lastset = Put(@, k, v), !.maybeset = Put(@, k, {})]
        \* a failed set may or may not have stored its value
        \* (so may a replace that was hit by a fault: it replaced, or -- having taken the miss path -- did not)
        ELSE IF e.api \in {"set", "set_tf"} \/ (e.api = "gou" /\ Has(s.cur[e.p], "judge") /\ s.cur[e.p].judge = "replace")
             THEN [s1 EXCEPT !.maybeset = Put(@, k, Get(@, k, {}) \cup {v})]
        \* an insert-if-absent (put / ensure / promote / a faulted replace) may have stored its value only if the key was free when it began
        ELSE IF e.p \in DOMAIN s.atcall /\ k \notin PresentKeys(s.cfg, s.atcall[e.p]) THEN [s1 EXCEPT !.maybeset = Put(@, k, Get(@, k, {}) \cup {v})]
        ELSE s1
    ELSE s1

Step(s, e) ==
    IF e.e = "sys" THEN SysStep(s, e)
    ELSE IF e.e \in {"crash", "age", "advdel", "mark"} THEN ExtStep(s, e)
    ELSE IF e.e = "call" THEN CallStep(s, e)
    ELSE IF e.e \in {"gone", "frozen"} THEN GoneStep(s, e)
    ELSE IF e.e = "ret" THEN RetStep(s, e)
    ELSE s

\* ---- monitors -------------------------------------------------------------
Mon(name, ok) == IF name \in Active /\ ~ok THEN {name} ELSE {}

\* world-building steps of the test driver are not the library's: never judged
WorldStep(e) == (Has(e, "ph") /\ e.ph = "world") \/ (Has(e, "world") /\ e.world)

Violations(s, e, s2) ==
    IF WorldStep(e) THEN {} ELSE
    LET cfg == s.cfg
        isSys == e.e = "sys"
        isRet == e.e = "ret"
        stateChanged == s2.fs # s.fs \/ e.e = "call"
    IN
    (IF stateChanged THEN Mon("DirValid", DirValid(cfg, s2)) \cup Mon("DebrisConfined", DebrisConfined(cfg, s2)) ELSE {})
    \cup (IF e.e = "obs" THEN Mon("HandleContentOK", HandleContentOK(s, e)) \cup Mon("HandleModeOK", HandleModeOK(s, e))
                               \cup Mon("ReadsLastSet", ReadsLastSet(s, e)) \cup Mon("StackOK", StackOK(cfg, s, e))
                               \cup Mon("SeqMapOK", SeqMapOK(cfg, s, e)) \cup Mon("ReplaceOwn", ReplaceOwn(s, e)) \cup Mon("ExpectVal", ExpectVal(cfg, e)) \cup Mon("WriteSideFirst", WriteSideFirst(cfg, s, e)) ELSE {})
    \cup (IF isSys \/ e.e \in {"crash", "age", "advdel"} THEN
              Mon("Immutable", ImmutableStep(s, e, s2)) \cup Mon("ROUntouched", ROUntouched(cfg, s, e, s2))
              \cup Mon("DotFilesUntouched", DotFilesUntouched(cfg, s, e, s2))
              \cup Mon("OutsideUntouched", OutsideUntouched(cfg, s, e, s2))
          ELSE {})
    \cup (IF isSys THEN
              Mon("DurableFirst", DurableFirst(cfg, s, e)) \cup Mon("ReadOnlyFirst", ReadOnlyFirst(cfg, s, e))
              \cup Mon("NoLocks", NoLocks(cfg, e)) \cup Mon("Confined", Confined(cfg, s, e))
              \cup Mon("ConfinedStrict", ConfinedStrict(cfg, s, e)) \cup Mon("RejectedNoEffect", RejectedNoEffect(cfg, s, e))
              \cup Mon("RemovalOK", RemovalOK(cfg, s, e)) \cup Mon("YoungTempKept", YoungTempKept(cfg, s, e, s2))
              \cup Mon("Mode0444", Mode0444(cfg, s, e)) \cup Mon("PutNeverReplaces", PutNeverReplaces(cfg, s, e, s2))
              \cup Mon("Bounded", Bounded(s2, e.p)) \cup Mon("FdBound", FdBound(cfg, s2, e.p))
          ELSE {})
    \cup (IF isRet THEN
              Mon("NoErr", NoErr(e)) \cup Mon("ExpectFail", ExpectFail(cfg, e)) \cup Mon("RejectedOK", RejectedOK(s, e)) \cup Mon("StaleGone", StaleGone(cfg, s, e))
              \cup Mon("FaultOK", FaultOK(cfg, s, e)) \cup Mon("FollowUpOK", FollowUpOK(s, e)) \cup Mon("NoLeak", NoLeak(cfg, s, e))
              \cup Mon("NoResidue", NoResidue(s, e)) \cup Mon("TwoOpensPerDir", TwoOpensPerDir(s, e))
              \cup Mon("NoLaterLookups", NoLaterLookups(cfg, s, e)) \cup Mon("TouchMarksFirstOnly", TouchMarksFirstOnly(cfg, s, e)) \cup Mon("OneCopy", OneCopy(cfg, s)) \cup Mon("UnexplainedLoss", UnexplainedLoss(cfg, s, e, s2))
              \cup Mon("SrcConsumed", SrcConsumed(e)) \cup Mon("ReadMarks", ReadMarks(cfg, s, e)) \cup Mon("FreshOnWrite", FreshOnWrite(cfg, s, e))
          ELSE {})
    \cup (IF isSys /\ IsSeq(cfg) /\ e.call = "close" /\ e.p \in DOMAIN s.prune /\ s.prune[e.p].fd = e.fd /\ InLib(e)
             /\ Has(e, "fdpath") /\ DirId(e.fdpath) = s.prune[e.p].d
          THEN LET capd == IF e.api = "prune" THEN s.cur[e.p].cap ELSE
                            IF Has(cfg, "shardcap") /\ ~(s.prune[e.p].d \in {r.id : r \in Roots(cfg)}) THEN cfg.shardcap ELSE cfg.cap
                   van == s.prune[e.p].van
               IN Mon("PruneOK", IF van = {} THEN PruneOK(s.prune[e.p].fs, s2.fs, s.prune[e.p].d, capd)
                                 ELSE PruneOKV(s.prune[e.p].fs, s2.fs, s.prune[e.p].d, capd, CHOOSE v \in van : TRUE))
                  \cup Mon("ReprieveUnmarks", ReprieveUnmarks(s.prune[e.p].fs, s2.fs, s.prune[e.p].d, s.prune[e.p].rs))
          ELSE {})
    \* C07: maintenance of a directory (here: of another shard, after the write's own publication) is the Second Chance pass AND the temp
    \* sweep -- a sweep of a shard's temp directory at that point without the pass over the shard itself is no maintenance
    \cup (IF isSys /\ InLib(e) /\ e.call = "getdents" /\ e.res = "ok" /\ Has(e, "fdpath") /\ IsKismetTemp(cfg, DirId(e.fdpath))
             /\ Get(s.published, e.p, FALSE)
          THEN Mon("MaintPrunes", ParentOfTemp(DirId(e.fdpath)) \in Get(s.plistedAfter, e.p, {})) ELSE {})
    \cup (IF e.e = "stuck" THEN Mon("SoloCompletes", FALSE) ELSE {})

\* ---- the trace specification ---------------------------------------------
\* how often the antecedents of the monitors were true (vacuity guard; reported to the driver)
Bump(f, k, yes) == IF yes THEN Put(f, k, Get(f, k, 0) + 1) ELSE f
StatsAfter(s, e, s2) ==
    LET a == Bump(stats, "sys", e.e = "sys" /\ ~WorldStep(e))
        b == Bump(a, "publishes", e.e = "sys" /\ ~WorldStep(e) /\ Publishes(s.cfg, e))
        c == Bump(b, "prunes_judged", e.e = "sys" /\ e.call = "close" /\ e.p \in DOMAIN s.prune /\ s.prune[e.p].fd = e.fd /\ InLib(e))
        d == Bump(c, "returns", e.e = "ret" /\ ~WorldStep(e))
        f == Bump(d, "handles", e.e = "obs" /\ Has(e, "handle"))
        g == Bump(f, "lib_unlinks", e.e = "sys" /\ e.call = "unlink" /\ e.res = "ok" /\ InLib(e))
        h == Bump(g, "crashes", e.e = "crash")
        i == Bump(h, "injected", e.e = "sys" /\ Has(e, "inj"))
        j == Bump(i, "ro_dirs_seen", e.e = "reset" /\ FALSE)
    IN j

Init == l = 1 /\ st = InitSt /\ stats = <<>>

Next ==
    /\ l <= Len(Rec)
    /\ l' = l + 1
    /\ LET e == Rec[l] IN
       IF e.e = "reset" THEN st' = Fresh(e) /\ stats' = Bump(stats, "runs", TRUE)
       ELSE IF e.e = "endrun" THEN
            /\ UNCHANGED stats
            /\ (l = Len(Rec) => PrintT(<<"STATS", ToJson(stats)>>))
            /\ (st.viol # {} \/ st.fsmis # {}) =>
                  PrintT(<<"VERDICT", ToJson([job |-> st.run.job, run |-> st.run.run,
                                              viol |-> st.viol, fsmis |-> st.fsmis])>>)
            /\ st' = [st EXCEPT !.viol = {}, !.fsmis = {}]
       ELSE LET s2 == Step(st, e)
                v == Violations(st, e, s2)
            IN /\ st' = [s2 EXCEPT !.viol = @ \cup {<<e.seq, n>> : n \in v}]
               /\ stats' = StatsAfter(st, e, s2)

Spec == Init /\ [][Next]_<<l, st, stats>>

Accepted ==
    /\ PrintT(<<"TRACE-END", TLCGet("stats").diameter - 1, Len(Rec)>>)
    /\ TLCGet("stats").diameter - 1 = Len(Rec)
=============================================================================
