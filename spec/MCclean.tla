---- MODULE MCclean ----
(* Maintenance on every write, tiny capacity, stale and young debris in .kismet_temp (C17, C02 at design level). *)
EXTENDS Kismet
MCProcs == {1, 2}
MCProg == (1 :> <<[api |-> "set", key |-> "k3", val |-> "a", chunks |-> 1]>>) @@
          (2 :> <<[api |-> "put", key |-> "k1", val |-> "b", chunks |-> 1], [api |-> "get", key |-> "k2", val |-> "", chunks |-> 0]>>)
MCPre == {[key |-> "k1", val |-> "o1"], [key |-> "k2", val |-> "o2"]}
MCDebris == {[name |-> "old", age |-> 4000], [name |-> "young", age |-> 10]}
NoDebris == {}
NoKeyShards == <<>>
NoPreRO == {}
====
