#!/bin/sh
# Regenerates every evidence file on the current (clean) tree: runs each check's quick command in turn.
cd /verif
git -C /repo diff --quiet || { echo "refusing: /repo has uncommitted changes"; exit 2; }
rc=0
for c in C01 C02 C03 C04 C05 C06 C07 C08 C09 C10 C11 C12 C13 C14 C15 C16 C17 C18 C19 C20; do
  s=$(date +%s)
  out=$(timeout 1800 ./check $c --tier ${1:-quick} 2>&1); r=$?
  e=$(( $(date +%s) - s ))
  echo "$c rc=$r ${e}s $(echo "$out" | grep -E 'VIOLATION|TOOL-ERROR|KNOWN|DRIFT' | head -3 | tr '\n' ' ')"
  [ $r -ne 0 ] && rc=1
done
exit $rc
