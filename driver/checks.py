"""Per-property checks.  Each builds jobs (worlds + programs + exploration), runs the generic
pipeline and writes evidence.  All verdicts come from TLC (spec/*.tla)."""
import json, os, sys, time, random, itertools, copy
from kv import *
from jobs import *
from pipeline import trace_check
import mc

TIER = "quick"


def tier():
    return TIER


def Q(quick, thorough):
    return quick if TIER == "quick" else thorough


# ---------------------------------------------------------------------------
# front ends used by the concurrency checks

def fronts(cap, which=("plain", "sharded", "stack")):
    """(name, cache spec, roots, setup parts)"""
    out = []
    rng = random.Random(7)
    if "plain" in which:
        out.append(("plain", plain("W", cap), [root("W", "plain", "w")], None))
    if "sharded" in which:
        out.append(("sharded", sharded("W", 2, max(cap, 2)), [root("W", "sharded", "w")], None))
    if "stack" in which:
        c = stack(plain("W", cap), [plain("R1")], "none", True)
        out.append(("stack", c, [root("W", "plain", "w"), root("R1", "plain", "ro")], "r1"))
    if "stacksh" in which:
        c = stack(sharded("W", 2, max(cap, 2)), [plain("R1")], "none", True)
        out.append(("stacksh", c, [root("W", "sharded", "w"), root("R1", "plain", "ro")], "r1"))
    return out


def key_ops(prog, front, hs):
    """Adds hashes for sharded front ends."""
    out = []
    for o in prog:
        o = dict(o)
        if "key" in o and o["key"] in hs:
            h, s = hs[o["key"]]
            o["hash"], o["sec"] = str(h), str(s)
        out.append(o)
    return out


HS = {"k": (1, 2), "k1": (1, 2), "k2": (3, 4), "k3": (5, 9)}   # k/k1 -> shards (0,1); k2 -> (1,0); k3 -> (0,1)


def conc_job(jid, fam, front, progs, explore, draw=NEVER, prefill=(), mkdirs_extra=(), presetup=True, adv=None, solo=None, cfg_extra=None):
    name, cache, roots, rosetup = front
    stages = []
    setup_prog = []
    if presetup:
        if name in ("plain", "sharded"):
            setup_prog.append(op("temp_dir", key="k1"))
        for (k, v) in prefill:
            setup_prog.append(op("set", k, v, srcdir="@TOP@/SRC"))
    setup_parts = []
    if setup_prog:
        setup_parts.append(part(9, cache, key_ops(setup_prog, name, HS), NEVER))
    if rosetup == "r1":
        setup_parts.append(part(8, plain("R1"), [op("set", "k", "ro1"), op("set", "k1", "ro1")], NEVER))
    if setup_parts:
        stages.append(seq_stage(*setup_parts))
    parts = []
    for i, pr in enumerate(progs):
        parts.append(part(i + 1, cache, key_ops(with_vals(pr, i + 1), name, HS), draw))
    st = sched_stage(*parts)
    if adv:
        st["adv"] = adv
    if solo:
        st["solo"] = solo
    stages.append(st)
    cfg = {"roots": roots, "front": name, "cap": (cache.get("cap") if name in ("plain", "sharded") else cache.get("writer", {}).get("cap", 1000000))}
    if name.startswith("stack"):
        cfg["autosync"] = True
    if cfg_extra:
        cfg.update(cfg_extra)
    return job(jid, stages, cfg, explore, fam=fam)


G, T, S, P = (lambda k: op("get", k)), (lambda k: op("touch", k)), (lambda k, **kw: op("set", k, **kw)), (lambda k, **kw: op("put", k, **kw))
E = lambda k, **kw: op("ensure", k, **kw)


def U(k, j, **kw):
    return op("gou", k, judge=j, **kw)


def prog_name(pr):
    return "+".join(o["api"] + ("(" + o.get("judge", "") + ")" if o["api"] == "gou" else "") for o in pr)


def conc_families(front_name):
    """Program tuples for the concurrency checks, per front end."""
    k = "k"
    base = [
        ([S(k, chunks=2)], [G(k), G(k)]),
        ([P(k, chunks=2)], [P(k), G(k)]),
        ([S(k)], [S(k, chunks=2), G(k)]),
        ([P(k)], [S(k), G(k)]),
        ([S(k)], [T(k), G(k)]),
        ([P(k)], [T(k), G(k)]),
        ([S("k1")], [S("k2"), G("k1")]),
    ]
    if front_name.startswith("stack"):
        base += [
            ([E(k)], [S(k), G(k)]),
            ([E(k, chunks=2)], [E(k), G(k)]),
            ([E("k2")], [E("k2"), G("k2")]),
            ([U(k, "promote")], [P(k), G(k)]),
            ([U(k, "replace")], [G(k), E(k)]),
        ]
    return base


# ---------------------------------------------------------------------------

def finish(prop, out, t0, level, coverage, assumptions):
    rc = out.finish()
    write_evidence(prop, TIER, level, coverage, time.time() - t0, len(out.violations), assumptions)
    return rc


BASE_ASSUME = [
    "TLC 1.8.0 and CommunityModules (Json, IOUtils) are correct",
    "ptrace shows every system call of the actors; serialising system calls loses no behaviour (the library shares only the filesystem)",
    "tmpfs (/dev/shm) behaves like the local POSIX filesystem the library targets",
    "actors run as uid 65534 so that permission bits are enforced",
]


def merge_stats(stats):
    tot = dict(runs=0, events=0, states=0, violations=0, fsmodel_mismatches=0, samples=[], conf_ops=0, drifts=[])
    for s in stats:
        for k in ("runs", "events", "states", "violations", "fsmodel_mismatches", "conf_ops"):
            tot[k] += s.get(k, 0)
        tot["samples"] += s["samples"][:1]
        tot["drifts"] += s.get("drifts", [])
    return tot


def coverage_mc(tot, design, rule, extra=None):
    cov = dict(states=max(1, tot["states"] + sum(d["states"] for d in design)),
               transitions=max(1, tot["events"] + sum(d["transitions"] for d in design)),
               traces_validated_against_impl=tot["runs"],
               samples=tot["samples"][:3] or [{"note": "no sample"}],
               rule=rule,
               trace_events_validated=tot["events"],
               fsmodel_mismatches=tot["fsmodel_mismatches"],
               model_conformant=(len(tot.get("drifts", [])) == 0),
               ops_conforming_to_Kismet_tla=tot.get("conf_ops", 0),
               drift_first_event=(tot.get("drifts") or [None])[0],
               design_level=[dict(cfg=d["cfg"], states=d["states"], transitions=d["transitions"], ok=d["ok"],
                                  never_taken=d.get("never_taken", []), wall_s=round(d.get("wall", 0), 1)) for d in design])
    if extra:
        cov.update(extra)
    return cov


def design_runs(work, out, names, workers=6):
    """Runs the design-level configurations relevant to a property (spec/MC*.cfg)."""
    res = []
    for n in names:
        r = mc.run_design(work, n, workers=workers)
        res.append(r)
        if not r["ok"]:
            # A design-level counterexample is never printed as a violation by itself (DESIGN.md section 6):
            # it is a tool error unless reproduced on the real code by the trace checks.
            out.notes.append("design-level run %s failed: %s" % (n, r["violated"]))
            raise ToolError("design-level model check %s did not pass: %s\n%s" % (n, r["violated"], r["out"][-2500:]))
    return res


# ---------------------------------------------------------------------------
# C01

def check_C01(work):
    t0 = time.time()
    out = Outcome("C01")
    jobs = []
    n = Q(60, 1500)
    for fr in fronts(100000, Q(("plain", "sharded", "stack"), ("plain", "sharded", "stack", "stacksh"))):
        for i, progs in enumerate(conc_families(fr[0])):
            fam = "%s:%s" % (fr[0], "||".join(prog_name(p) for p in progs))
            for pre in ((), (("k", "old"),)):
                jid = "C01-%s-%d-%s" % (fr[0], i, "pre" if pre else "empty")
                jobs.append(conc_job(jid, fam, fr, progs, dfs(n, Q(2, 3)), prefill=pre))
        # maintenance on every write (tiny capacity): evictions race with readers
        fr1 = fronts(1, (fr[0],))[0]
        for i, progs in enumerate([([S("k1")], [S("k2"), G("k1")]), ([P("k1"), G("k2")], [S("k2"), G("k1")])]):
            fam = "%s:maint:%s" % (fr[0], "||".join(prog_name(p) for p in progs))
            jobs.append(conc_job("C01-%s-m%d" % (fr[0], i), fam, fr1, progs, rnd(Q(40, 600), seed() + i), draw=ALWAYS,
                                 prefill=(("k3", "old3"),)))
    # three participants
    for fr in fronts(100000, ("plain", "stack")):
        progs = ([S("k", chunks=2)], [P("k")], [G("k"), G("k")])
        jobs.append(conc_job("C01-%s-3p" % fr[0], "%s:3p" % fr[0], fr, progs, rnd(Q(60, 1500), seed() + 99)))
    mons = ["DirValid", "HandleContentOK", "Immutable"]
    st = trace_check(work, out, jobs, mons, tag="c01", conform=True)
    design = design_runs(work, out, Q(["MCplain2q"], ["MCplain2q", "MCplain2"]))
    cov = coverage_mc(st, design,
                      "schedules of 2-3 participants explored by preemption-bounded DFS / seeded random at system-call granularity; "
                      "every snapshot of every step and every returned handle judged by DirValid/HandleContentOK/Immutable",
                      dict(jobs=len(jobs), monitors=mons))
    return finish("C01", out, t0, "model_checking", cov, BASE_ASSUME)


# ---------------------------------------------------------------------------
# C05

def check_C05(work):
    t0 = time.time()
    out = Outcome("C05")
    jobs = []
    n = Q(50, 1200)
    for fr in fronts(1, Q(("plain", "sharded", "stack"), ("plain", "sharded", "stack", "stacksh"))):
        fams = [
            ([S("k1")], [S("k2"), G("k1")]),
            ([P("k1"), T("k2")], [S("k2"), G("k1")]),
            ([P("k1")], [T("k1"), T("k1")]),
            ([S("k1")], [T("k1"), G("k1")]),
            ([P("k2"), G("k2")], [P("k2"), T("k2")]),
        ]
        if fr[0].startswith("stack"):
            fams += [([E("k1")], [S("k1"), T("k1")]), ([E("k2")], [E("k2"), G("k2")])]
        for i, progs in enumerate(fams):
            fam = "%s:%s" % (fr[0], "||".join(prog_name(p) for p in progs))
            # directories initially missing (no setup) and present
            jobs.append(conc_job("C05-%s-%d-nodirs" % (fr[0], i), fam + ":nodirs", fr, progs, dfs(n, 2), draw=ALWAYS, presetup=False))
            jobs.append(conc_job("C05-%s-%d" % (fr[0], i), fam, fr, progs, dfs(n, 2), draw=ALWAYS, prefill=(("k3", "old3"),)))
        # adversary: delete published files at every step of a base schedule
        progs = ([S("k1"), G("k3")], [P("k3"), T("k1")])
        for at in range(1, Q(14, 40)):
            for victim in ("k3", "k1"):
                vpath = "W/%s" % victim if fr[0] in ("plain", "stack") else None
                if vpath is None:
                    a, b = shard_ids(HS[victim][0], HS[victim][1], 2)
                    vpath = "%s/%s" % (shard_dir("W", a), victim)
                jobs.append(conc_job("C05-%s-adv-%d-%s" % (fr[0], at, victim), "%s:adversary" % fr[0], fr, progs,
                                     rnd(Q(1, 6), seed() + at), draw=ALWAYS, prefill=(("k3", "old3"),),
                                     adv=[{"at": at, "path": vpath}]))
    mons = ["NoErr", "DirValid"]
    st = trace_check(work, out, jobs, mons, tag="c05", conform=True)
    design = []
    cov = coverage_mc(st, design,
                      "capacity-1 caches (every write maintains), missing directories, adversarial deletions of published files at each scheduler step; "
                      "every API return judged by NoErr", dict(jobs=len(jobs), monitors=mons))
    return finish("C05", out, t0, "model_checking", cov, BASE_ASSUME)


CHECKS = {"C01": check_C01, "C05": check_C05}

NOT_APPLICABLE = {}
