"""Per-property checks.  Each builds jobs (worlds + programs + exploration), runs the generic
pipeline and writes evidence.  All verdicts come from TLC (spec/*.tla)."""
import json, os, sys, time, random, itertools, copy, subprocess
from kv import *
from jobs import *
from pipeline import trace_check
import mc
import replay

TIER = "quick"


def tier():
    return TIER


def Q(quick, thorough):
    return quick if TIER == "quick" else thorough


# ---------------------------------------------------------------------------
# front ends used by the concurrency checks

def fronts(cap, which=("plain", "sharded", "stack")):
    """(name, cache spec, roots, setup parts)"""
    out = []
    rng = random.Random(7)
    if "plain" in which:
        out.append(("plain", plain("W", cap), [root("W", "plain", "w")], None))
    if "sharded" in which:
        out.append(("sharded", sharded("W", 2, max(cap, 2)), [root("W", "sharded", "w")], None))
    if "stack" in which:
        c = stack(plain("W", cap), [plain("R1")], "none")
        out.append(("stack", c, [root("W", "plain", "w"), root("R1", "plain", "ro")], "r1"))
    if "stacksh" in which:
        c = stack(sharded("W", 2, max(cap, 2)), [plain("R1")], "none")
        out.append(("stacksh", c, [root("W", "sharded", "w"), root("R1", "plain", "ro")], "r1"))
    return out


def key_ops(prog, front, hs):
    """Adds hashes for sharded front ends."""
    out = []
    for o in prog:
        o = dict(o)
        if "key" in o and o["key"] in hs:
            h, s = hs[o["key"]]
            o["hash"], o["sec"] = str(h), str(s)
        out.append(o)
    return out


HS = {"k": (1, 2), "k1": (1, 2), "k2": (7, 4), "k3": (5, 9)}   # with two shards: k/k1 -> (0,1); k2 -> (1,0); k3 -> (0,1)   (jobs.shard_ids)


def conc_job(jid, fam, front, progs, explore, draw=NEVER, prefill=(), mkdirs_extra=(), presetup=True, adv=None, solo=None, cfg_extra=None):
    name, cache, roots, rosetup = front
    stages = []
    setup_prog = []
    if presetup:
        if name in ("plain", "sharded"):
            setup_prog.append(op("temp_dir", key="k1"))
        for (k, v) in prefill:
            setup_prog.append(op("set", k, v, srcdir="@TOP@/SRC"))
    setup_parts = []
    if setup_prog:
        setup_parts.append(part(9, cache, key_ops(setup_prog, name, HS), NEVER))
    if rosetup == "r1":
        # the read-only cache is planted by world-building ops (not through a library handle that would write under a read-only root)
        setup_parts.insert(0, part(7, plain("SRC/none"), [
            op("mkfile", path="@TOP@/R1/k", key="k", val="ro1", chunks=1, w=8, mode=0o444, mt_ago=300.0, at_ago=420.0),
            op("mkfile", path="@TOP@/R1/k1", key="k1", val="ro1", chunks=1, w=8, mode=0o444, mt_ago=300.0, at_ago=420.0)], NEVER))
    if setup_parts:
        stages.append(seq_stage(*setup_parts))
    parts = []
    for i, pr in enumerate(progs):
        parts.append(part(i + 1, cache, key_ops(with_vals(pr, i + 1), name, HS), draw))
    st = sched_stage(*parts)
    if adv:
        st["adv"] = adv
    if solo:
        st["solo"] = solo
    if explore and explore.get("kind") == "solo":
        st["allpoints"] = True      # a peer can be frozen between ANY two of its calls
    stages.append(st)
    cfg = {"roots": roots, "front": name, "cap": (cache.get("cap") if name in ("plain", "sharded") else cache.get("writer", {}).get("cap", 1000000))}
    if name.startswith("stack"):
        cfg["autosync"] = True
    if name == "sharded":
        cfg["shardcap"] = (cache["cap"] + cache["shards"] - 1) // cache["shards"]
    if cfg_extra:
        cfg.update(cfg_extra)
    return job(jid, stages, cfg, explore, fam=fam)


G, T, S, P = (lambda k: op("get", k)), (lambda k: op("touch", k)), (lambda k, **kw: op("set", k, **kw)), (lambda k, **kw: op("put", k, **kw))
E = lambda k, **kw: op("ensure", k, **kw)


def U(k, j, **kw):
    return op("gou", k, judge=j, **kw)


def prog_name(pr):
    return "+".join(o["api"] + ("(" + o.get("judge", "") + ")" if o["api"] == "gou" else "") for o in pr)


def conc_families(front_name):
    """Program tuples for the concurrency checks, per front end."""
    k = "k"
    base = [
        ([S(k, chunks=2)], [G(k), G(k)]),
        ([P(k, chunks=2)], [P(k), G(k)]),
        ([S(k)], [S(k, chunks=2), G(k)]),
        ([P(k)], [S(k), G(k)]),
        ([S(k)], [T(k), G(k)]),
        ([P(k)], [T(k), G(k)]),
        ([S("k1")], [S("k2"), G("k1")]),
    ]
    if front_name.startswith("stack"):
        base += [
            ([E(k)], [S(k), G(k)]),
            ([E(k, chunks=2)], [E(k), G(k)]),
            ([E("k2", chunks=2)], [E("k2", chunks=2), G("k2")]),
            ([U(k, "promote")], [P(k), G(k)]),
            ([U(k, "replace")], [G(k), E(k)]),
            # the value is staged on another filesystem than the cache (rename fails with EXDEV)
            ([S(k, srcdir="@XDEV@", chunks=2)], [G(k), G(k)]),
        ]
    return base


# ---------------------------------------------------------------------------

def finish(prop, out, t0, level, coverage, assumptions):
    rc = out.finish()
    write_evidence(prop, TIER, level, coverage, time.time() - t0, len(out.violations), assumptions)
    return rc


BASE_ASSUME = [
    "TLC 1.8.0 and CommunityModules (Json, IOUtils) are correct",
    "ptrace shows every system call of the actors; serialising system calls loses no behaviour (the library shares only the filesystem)",
    "tmpfs (/dev/shm) behaves like the local POSIX filesystem the library targets",
    "actors run as uid 65534 so that permission bits are enforced",
]


def merge_stats(stats):
    tot = dict(runs=0, events=0, states=0, violations=0, fsmodel_mismatches=0, samples=[], conf_ops=0, drifts=[])
    for s in stats:
        for k in ("runs", "events", "states", "violations", "fsmodel_mismatches", "conf_ops"):
            tot[k] += s.get(k, 0)
        tot["samples"] += s["samples"][:1]
        tot["drifts"] += s.get("drifts", [])
        for k, v in (s.get("mstats") or {}).items():
            tot.setdefault("mstats", {})
            tot["mstats"][k] = tot["mstats"].get(k, 0) + v
    return tot


def coverage_mc(tot, design, rule, extra=None):
    cov = dict(states=max(1, tot["states"] + sum(d["states"] for d in design)),
               transitions=max(1, tot["events"] + sum(d["transitions"] for d in design)),
               traces_validated_against_impl=tot["runs"],
               samples=tot["samples"][:3] or [{"note": "no sample"}],
               rule=rule,
               trace_events_validated=tot["events"],
               fsmodel_mismatches=tot["fsmodel_mismatches"],
               model_conformant=(len(tot.get("drifts", [])) == 0),
               ops_conforming_to_Kismet_tla=tot.get("conf_ops", 0),
               drift_first_event=(tot.get("drifts") or [None])[0],
               monitor_antecedents=tot.get("mstats", {}),
               shared_pool=tot.get("pool"),
               model_behaviours_replayed=tot.get("replay"),
               design_level=[dict(cfg=d["cfg"], states=d["states"], transitions=d["transitions"], ok=d["ok"],
                                  never_taken=d.get("never_taken", []), wall_s=round(d.get("wall", 0), 1)) for d in design])
    if extra:
        cov.update(extra)
    return cov


def design_runs(work, out, names, workers=6):
    """Runs the design-level configurations relevant to a property (spec/MC*.cfg)."""
    res = []
    for n in names:
        r = mc.run_design(work, n, workers=workers)
        res.append(r)
        if not r["ok"]:
            # A design-level counterexample is never printed as a violation by itself (DESIGN.md section 6):
            # it is a tool error unless reproduced on the real code by the trace checks.
            out.notes.append("design-level run %s failed: %s" % (n, r["violated"]))
            raise ToolError("design-level model check %s did not pass: %s\n%s" % (n, r["violated"], r["out"][-2500:]))
    return res


# ---------------------------------------------------------------------------
# the shared pool: rich worlds x random histories / schedules, validated by several properties' own monitors

# monitors whose antecedents make sense on the pool's worlds (the others are specific to their check's scenario construction)
POOL_OK = {"WriteSideFirst", "MaintPrunes", "ReplaceOwn", "ReprieveUnmarks", "DirValid", "HandleContentOK", "Immutable", "DurableFirst", "ReadOnlyFirst", "Mode0444", "NoErr", "PruneOK", "ReadMarks", "FreshOnWrite",
           "SeqMapOK", "OneCopy", "UnexplainedLoss", "SrcConsumed", "ROUntouched", "Confined", "OutsideUntouched", "RemovalOK", "DotFilesUntouched",
           "YoungTempKept", "StaleGone", "HandleModeOK", "PutNeverReplaces", "DebrisConfined", "NoLocks", "TouchMarksFirstOnly", "NoLaterLookups"}


def pool_world(rng, wroot_dirs, ro_roots, keys):
    """World-building ops: dot files, stray directories, temp debris of every age (incl. future-dated), read-only copies."""
    w = []
    for d in wroot_dirs:
        if rng.random() < 0.5:
            w.append(op("mkfile", path="@TOP@/%s/.appdata" % d, raw="appdata", mt_ago=rng.choice([5000.0, 10.0, -4000.0]), at_ago=0.0))
        if rng.random() < 0.3:
            w.append(op("mkdir", path="@TOP@/%s/.appdir" % d))
            w.append(op("mkfile", path="@TOP@/%s/.appdir/x" % d, raw="x"))
        if rng.random() < 0.3:
            w.append(op("mkdir", path="@TOP@/%s/subdir" % d))
            w.append(op("mkfile", path="@TOP@/%s/subdir/inner" % d, raw="inner"))
        for i, age in enumerate(rng.sample([30.0, 3500.0, 3700.0, 90000.0, -7200.0], 3)):
            w.append(op("mkfile", path="@TOP@/%s/.kismet_temp/deb%d" % (d, i), raw="debris", mt_ago=age, at_ago=age))
        if rng.random() < 0.3:
            w.append(op("mkdir", path="@TOP@/%s/.kismet_temp/olddir" % d))
            w.append(op("mkfile", path="@TOP@/%s/.kismet_temp/olddir/f" % d, raw="f", mt_ago=20.0, at_ago=20.0))
            w.append(op("utimes", path="@TOP@/%s/.kismet_temp/olddir" % d, mt_ago=9000.0, at_ago=9000.0))
    rokeys = []
    for (rd, kind) in ro_roots:
        for k in rng.sample(keys, 2):
            d = rd if kind == "plain" else "%s/.kismet_%04x" % (rd, rng.randrange(2))
            if kind != "plain":
                for i in (0, 1):
                    w.append(op("mkdir", path="@TOP@/%s/.kismet_%04x" % (rd, i)))
            ago = rng.choice([500.0, 500.0, -3600.0])
            w.append(op("mkfile", path="@TOP@/%s/%s" % (d, k[0]), key=k[0], val="ro-%s" % k[0], chunks=1, w=0, mode=0o444, mt_ago=ago, at_ago=ago + rng.choice([120.0, -5.0])))
            rokeys.append(k[0])
    return w, sorted(set(rokeys))


def pool_jobs(tier_quick=True, want=("seq", "conc"), nseq=None, nconc=None):
    rng = random.Random(seed() + 4242)
    jobs = []
    nseq = nseq if nseq is not None else Q(28, 300)
    nconc = nconc if nconc is not None else Q(14, 150)
    plain_keys = [("k%d" % i, (i, i + 100)) for i in range(5)]
    if "seq" in want:
        for r in range(nseq):
            kind = rng.choice(["plain", "sharded", "stack", "stack", "stacksh"])
            cap = rng.choice([1, 2, 3, 7, 1000000])
            umask = rng.choice([0o000, 0o002, 0o022, 0o077])
            keys = plain_keys
            shardcap = None
            if kind == "plain":
                cache, wdirs, ros = plain("W", cap), ["W"], []
            elif kind == "sharded":
                cache, wdirs, ros = sharded("W", 2, max(2, cap)), ["W/.kismet_0000", "W/.kismet_0001"], []
                shardcap = (max(2, cap) + 1) // 2
            else:
                ros = [("R1", "plain")] + ([("R2", rng.choice(["plain", "sharded"]))] if rng.random() < 0.5 else [])
                readers = [plain(rd) if kd == "plain" else {"kind": "sharded", "dir": "@TOP@/" + rd, "shards": 2} for rd, kd in ros]
                # a byte-equality checker on some stacks: every value written for a key that a read-only level holds then agrees with that copy
                # (so that no comparison fails on a correct library and promotions / comparisons really happen)
                ck = rng.choice(["none", "none", "eq"])
                if kind == "stack":
                    cache, wdirs = stack(plain("W", cap), readers, ck), ["W"]
                else:
                    cache, wdirs = stack(sharded("W", 2, max(2, cap)), readers, ck), ["W/.kismet_0000", "W/.kismet_0001"]
                    shardcap = (max(2, cap) + 1) // 2
            world, rokeys = pool_world(rng, wdirs, ros, keys)
            nops = rng.choice([8, 14, 22])
            apis = ["set", "put", "get", "touch"] + (["ensure", "gou", "set_tf", "put_tf"] if cache["kind"] == "stack" else [])
            prog = []
            for i in range(nops):
                api = rng.choice(apis)
                k, (h, s2) = rng.choice(keys)
                o = op(api, k, hash=str(h), sec=str(s2), h=0)
                if api in ("set", "put", "ensure", "gou", "set_tf", "put_tf"):
                    o["val"] = "v%d" % i
                    o["chunks"] = rng.choice([1, 1, 2])
                if api in ("set", "put"):
                    o["srcmode"] = rng.choice([0o600, 0o644, 0o664, 0o666])
                if api == "gou":
                    o["judge"] = rng.choice(["accept", "promote", "replace"])
                if cache["kind"] == "stack" and cache.get("checker") == "eq" and "val" in o:
                    o["val"], o["chunks"], o["w"] = "ro-%s" % k, 1, 0        # one value per key: every comparison the checker makes agrees
                prog.append(o)
            cfg = {"roots": roots_of(cache), "front": cache["kind"], "cap": cap, "seq": True, "rokeys": rokeys}
            if shardcap:
                cfg["shardcap"] = shardcap
            if cache["kind"] == "stack":
                cfg["autosync"] = True
            stages = [seq_stage(part(9, plain("SRC/none"), world, NEVER)),
                      seq_stage(dict(part(1, cache, with_vals(prog, 1), rng.choice([ALWAYS, NEVER, str(rng.getrandbits(64) | 1)]),
                                          shard_script=[rng.randrange(8) for _ in range(40)], umask=umask)))]
            if cache["kind"] == "stack":
                cfg["checker"] = cache.get("checker", "none")
            pj = job("POOL-seq-%d" % r, stages, cfg, None, fam="pool:seq:%s:cap%s%s" % (kind, cap, ":eq" if cfg.get("checker") == "eq" else ""))
            # environment: the kernel's access-time policy and the order in which directories are listed vary from run to run
            em = rng.choice([None, None, {"noatime": True}, {"strictatime": True}, {"listorder": ["<reverse>"]}, {"noatime": True, "listorder": ["<reverse>"]}])
            if em:
                pj["emul"] = em
            jobs.append(pj)
    if "conc" in want:
        for r in range(nconc):
            fr = rng.choice(fronts(rng.choice([1, 3, 100000]), ("plain", "sharded", "stack")))
            stacked = fr[0].startswith("stack")
            progs = []
            for pi in range(rng.choice([2, 2, 3])):
                pr = []
                for i in range(rng.choice([1, 2, 3])):
                    api = rng.choice(["set", "put", "get", "touch"] + (["ensure", "ensure"] if stacked else []))
                    pr.append(op(api, rng.choice(["k1", "k2", "k3"])))
                progs.append(pr)
            jobs.append(conc_job("POOL-conc-%d" % r, "pool:conc:%s" % fr[0], fr, tuple(progs), rnd(Q(6, 30), seed() + 7000 + r),
                                 draw=rng.choice([ALWAYS, NEVER]), prefill=((("k3", "old3"),) if rng.random() < 0.6 else ()),
                                 presetup=rng.random() < 0.7))
    return jobs


def add_pool(work, out, st, mons, want=("seq", "conc"), tag="pool"):
    """Validates the shared pool with this property's monitors and adds what was covered to the check's statistics."""
    st2 = pool_check(work, out, mons, want=want, tag=tag)
    for k in ("runs", "events", "states", "violations", "fsmodel_mismatches"):
        st[k] = st.get(k, 0) + st2.get(k, 0)
    for k, v in (st2.get("mstats") or {}).items():
        st.setdefault("mstats", {})
        st["mstats"][k] = st["mstats"].get(k, 0) + v
    st["pool"] = dict(runs=st2["runs"], events=st2["events"], monitors=mons, kinds=list(want))
    return st


def add_replay(work, out, st, mons, num, names=None, tag="rp"):
    """Behaviours generated by TLC from Kismet.tla, replayed into the real library (driver/replay.py), judged by this
    property's monitors; what was covered is added to the check's statistics."""
    st2 = replay.replay_check(work, out, mons, num, names=names, seed=seed(), tag=tag)
    for k in ("runs", "events", "states", "violations", "fsmodel_mismatches", "conf_ops"):
        st[k] = st.get(k, 0) + st2.get(k, 0)
    st["drifts"] = st.get("drifts", []) + st2.get("drifts", [])
    for k, v in (st2.get("mstats") or {}).items():
        st.setdefault("mstats", {})
        st["mstats"][k] = st["mstats"].get(k, 0) + v
    st["replay"] = st2["replay"]
    return st


def pool_check(work, out, mons, want=("seq", "conc"), tag="pool", nseq=None, nconc=None):
    """Validates the shared pool with this property's own monitors."""
    return trace_check(work, out, pool_jobs(want=want, nseq=nseq, nconc=nconc), mons, tag=tag)


# ---------------------------------------------------------------------------
# C01

def check_C01(work):
    t0 = time.time()
    out = Outcome("C01")
    jobs = []
    n = Q(60, 1500)
    for fr in fronts(100000, Q(("plain", "sharded", "stack"), ("plain", "sharded", "stack", "stacksh"))):
        for i, progs in enumerate(conc_families(fr[0])):
            fam = "%s:%s" % (fr[0], "||".join(prog_name(p) for p in progs))
            for pre in ((), (("k", "old"),)):
                jid = "C01-%s-%d-%s" % (fr[0], i, "pre" if pre else "empty")
                jobs.append(conc_job(jid, fam, fr, progs, dfs(n, Q(2, 3)), prefill=pre))
                # DFS varies the end of the schedule first; seeded random schedules reach races in the middle
                jobs.append(conc_job(jid + "-rnd", fam, fr, progs, rnd(Q(25, 400), seed() + 1000 + i), prefill=pre))
        # maintenance on every write (tiny capacity): evictions race with readers
        fr1 = fronts(1, (fr[0],))[0]
        for i, progs in enumerate([([S("k1")], [S("k2"), G("k1")]), ([P("k1"), G("k2")], [S("k2"), G("k1")])]):
            fam = "%s:maint:%s" % (fr[0], "||".join(prog_name(p) for p in progs))
            jobs.append(conc_job("C01-%s-m%d" % (fr[0], i), fam, fr1, progs, rnd(Q(40, 600), seed() + i), draw=ALWAYS,
                                 prefill=(("k3", "old3"),)))
    # three participants
    for fr in fronts(100000, ("plain", "stack")):
        progs = ([S("k", chunks=2)], [P("k")], [G("k"), G("k")])
        jobs.append(conc_job("C01-%s-3p" % fr[0], "%s:3p" % fr[0], fr, progs, rnd(Q(60, 1500), seed() + 99)))
    # one failing publish call in a writer (no hard links here, cross-device, I/O error ...) while readers look the key up: whatever
    # fallback or retry the library takes, a reader never sees an empty, partial or later-modified file
    nflt = 0
    for fr in fronts(100000, ("plain", "stack")):
        for wop, calls in ((P("k"), [("link", "EPERM"), ("link", "EXDEV"), ("link", "EMLINK"), ("link", "EIO")]),
                           (S("k"), [("rename", "EXDEV"), ("rename", "EIO"), ("rename", "EPERM")])) + \
                          (((E("k2"), [("link", "EPERM"), ("link", "EIO"), ("write", "SHORT")]),
                            # promotion of the read-only copy of k: short copies / short writes must be completed, not published
                            # (and a promotion that fails after it consumed the hit must not hand the hit back at its end)
                            (E("k"), [("copy", "SHORT"), ("write", "SHORT"), ("copy", "EIO"), ("fsync", "EIO"), ("chmod", "EIO"), ("close", "EIO"), ("utimens", "EIO")])) if fr[0] == "stack" else ()):
            for call, er in calls:
                key = wop["key"]
                progs = ([dict(wop, chunks=2)], [G(key), G(key)])
                cj = conc_job("C01-flt-%s-%d" % (fr[0], nflt), "%s:%s(%s:%s)||get+get" % (fr[0], wop["api"], call, er), fr, progs, bursts(Q(40, 200)))
                cj["stages"][-1]["parts"][0]["fault_all"] = {"call": call, "errno": er, "count": 1}
                if er == "SHORT":
                    cj["cfg"]["unmodelled"] = True       # Kismet.tla has no short transfers: these runs are judged by the monitors only
                jobs.append(cj)
                nflt += 1
    mons = ["DirValid", "HandleContentOK", "Immutable"]
    st = trace_check(work, out, jobs, mons, tag="c01", conform=True)
    st = add_pool(work, out, st, ["DirValid", "HandleContentOK", "Immutable"])
    st = add_replay(work, out, st, mons, Q(40, 600), names=["RPplain", "RPmaint", "RPnodirs", "RPshard", "RPstack", "RPpromote", "RPgou"])
    design = design_runs(work, out, Q(["MCplain2q", "MCshard1", "MCstack2"], ["MCplain2q", "MCplain2", "MCplain3", "MCshard1", "MCshard2", "MCstack2", "MCstack3"]))
    cov = coverage_mc(st, design,
                      "schedules of 2-3 participants explored by preemption-bounded DFS / seeded random at system-call granularity; "
                      "every snapshot of every step and every returned handle judged by DirValid/HandleContentOK/Immutable",
                      dict(jobs=len(jobs), monitors=mons))
    return finish("C01", out, t0, "model_checking", cov, BASE_ASSUME)


# ---------------------------------------------------------------------------
# C05

def check_C05(work):
    t0 = time.time()
    out = Outcome("C05")
    jobs = []
    n = Q(50, 1200)
    for fr in fronts(1, Q(("plain", "sharded", "stack"), ("plain", "sharded", "stack", "stacksh"))):
        fams = [
            ([S("k1")], [S("k2"), G("k1")]),
            ([P("k1"), T("k2")], [S("k2"), G("k1")]),
            ([P("k1")], [T("k1"), T("k1")]),
            ([S("k1")], [T("k1"), G("k1")]),
            ([P("k2"), G("k2")], [P("k2"), T("k2")]),
        ]
        if fr[0].startswith("stack"):
            fams += [([E("k1")], [S("k1"), T("k1")]), ([E("k2")], [E("k2"), G("k2")])]
        for i, progs in enumerate(fams):
            fam = "%s:%s" % (fr[0], "||".join(prog_name(p) for p in progs))
            # directories initially missing (no setup) and present
            jobs.append(conc_job("C05-%s-%d-nodirs" % (fr[0], i), fam + ":nodirs", fr, progs, dfs(n, 2), draw=ALWAYS, presetup=False))
            # every check-then-act window of one participant with the other one running to completion inside it
            jobs.append(conc_job("C05-%s-%d-nodirs-b" % (fr[0], i), fam + ":nodirs", fr, progs, bursts(Q(90, 400)), draw=ALWAYS, presetup=False))
            jobs.append(conc_job("C05-%s-%d-b" % (fr[0], i), fam, fr, progs, bursts(Q(60, 400), stride=Q(2, 1), offset=seed() + i), draw=ALWAYS,
                                 prefill=(("k3", "old3"),)))
            jobs.append(conc_job("C05-%s-%d" % (fr[0], i), fam, fr, progs, dfs(n, 2), draw=ALWAYS, prefill=(("k3", "old3"),)))
            jobs.append(conc_job("C05-%s-%d-rnd" % (fr[0], i), fam, fr, progs, rnd(Q(25, 400), seed() + 2000 + i), draw=ALWAYS, prefill=(("k3", "old3"),)))
        # adversary against ensure: the entry vanishes between ensure's insertion and its second lookup
        if fr[0].startswith("stack"):
            for at in range(1, Q(30, 60)):
                jobs.append(conc_job("C05-%s-advens-%d" % (fr[0], at), "%s:adversary:ensure" % fr[0], fr, ([E("k7"), G("k7")], [T("k3")]),
                                     rnd(1, seed() + at), draw=NEVER, prefill=(("k3", "old3"),), adv=[{"at": at, "path": "W/k7"}]))
        # adversary: delete published files at every step of a base schedule
        progs = ([S("k1"), G("k3")], [P("k3"), T("k1")])
        for at in range(1, Q(14, 40)):
            for victim in ("k3", "k1"):
                vpath = "W/%s" % victim if fr[0] in ("plain", "stack") else None
                if vpath is None:
                    a, b = shard_ids(HS[victim][0], HS[victim][1], 2)
                    vpath = "%s/%s" % (shard_dir("W", a), victim)
                jobs.append(conc_job("C05-%s-adv-%d-%s" % (fr[0], at, victim), "%s:adversary" % fr[0], fr, progs,
                                     rnd(Q(1, 6), seed() + at), draw=ALWAYS, prefill=(("k3", "old3"),),
                                     adv=[{"at": at, "path": vpath}]))
    mons = ["NoErr", "DirValid"]
    st = trace_check(work, out, jobs, mons, tag="c05", conform=True)
    st = add_pool(work, out, st, ["NoErr"])
    st = add_replay(work, out, st, ["NoErr", "DirValid"], Q(40, 600), names=["RPplain", "RPmaint", "RPnodirs", "RPshard", "RPstack", "RPpromote", "RPgoum"])
    design = design_runs(work, out, Q(["MCtouchput", "MCadv", "MCshard1", "MCstack3"], ["MCtouchput", "MCadv", "MCplain2", "MCclean", "MCshard2", "MCstack2", "MCstack3"]))
    cov = coverage_mc(st, design,
                      "capacity-1 caches (every write maintains), missing directories, adversarial deletions of published files at each scheduler step; "
                      "every API return judged by NoErr", dict(jobs=len(jobs), monitors=mons))
    return finish("C05", out, t0, "model_checking", cov, BASE_ASSUME)



# ---------------------------------------------------------------------------
# sequential helper

def seq_job(jid, fam, cache, prog, world=(), draw=NEVER, cfg_extra=None, roots=None, pre=(), emul=None, pid=1, mkdirs=("SRC", "TMP"), **kw):
    """One participant executing `prog` (after optional world-building ops and library-made prefill)."""
    stages = []
    if world:
        stages.append(seq_stage(part(9, plain("SRC/none"), list(world), NEVER)))
    if pre:
        stages.append(seq_stage(part(8, cache, with_vals(list(pre), 8), NEVER)))
    stages.append(seq_stage(part(pid, cache, with_vals(list(prog), pid), draw, **kw)))
    cfg = {"roots": roots if roots is not None else roots_of(cache), "front": cache["kind"]}
    cfg["cap"] = cache.get("cap", cache.get("writer", {}).get("cap", 1000000) if isinstance(cache.get("writer"), dict) else 1000000)
    if cache["kind"] == "stack":
        cfg["autosync"] = cache.get("auto_sync") is not False
        cfg["checker"] = cache.get("checker", "none")
    if cfg_extra:
        cfg.update(cfg_extra)
    j = job(jid, stages, cfg, None, mkdirs=mkdirs, fam=fam)
    if emul:
        j["emul"] = emul
    return j


# ---------------------------------------------------------------------------
# C16

def c16_names(rng, thorough):
    fixed = ["", ".", "..", ".x", ".kismet_temp", ".kismet_0000", "/abs", "/", "\\x", "\\", "a", "a.b", "a/b", "a/../b", "x/../../escaped",
             "x/../../../escaped2", "a/", "a/.", "..a", "a\\b", "\u00e9", "a b", "a" * 255, "a" * 256, "a//b", "-x", "~", "a\nb", "a/b/c",
             "a/./b", "x/..", "a\u0000b", "\u00e9/\u00e9", "k/.kismet_temp", "a/.hidden",
             # blanks are ordinary bytes of a name: never trimmed, never decoded
             " ", "  ", " .x", "\t.x", " .kismet_temp", "a ", " a", "a\t", "\na", " /a", "a%2fb", "a%2e", "A", "\u00c9",
             # a separator beyond the first component-length boundary is still a separator: the whole name is validated
             "a" * 254 + "/b", "a" * 255 + "/b", "a" * 255 + "/../../escaped3", "a" * 255 + "/nested", "a" * 256 + "/b",
             "a" * 255 + "\\b", "a" * 254 + "\u00e9/b"]
    alpha = ["a", ".", "/", "\\", "\u00e9", " "]
    out = list(fixed)
    if thorough:
        for n in range(1, 5):
            for t in itertools.product(alpha, repeat=n):
                out.append("".join(t))
    else:
        for n in range(1, 4):
            for t in itertools.product(alpha, repeat=n):
                out.append("".join(t))
        for _ in range(40):
            out.append("".join(rng.choice(alpha) for _ in range(4)))
    seen, res = set(), []
    for x in out:
        if x not in seen:
            seen.add(x)
            res.append(x)
    return res


def check_C16(work):
    t0 = time.time()
    out = Outcome("C16")
    rng = random.Random(seed())
    names = c16_names(rng, TIER == "thorough")
    world = [op("mkfile", path="@TOP@/outer/sib.txt", raw="sibling"), op("mkfile", path="@TOP@/outer/nested/inner.txt", raw="inner"),
             op("mkfile", path="@TOP@/top.txt", raw="top")]
    fronts_ = [("plain", plain("outer/W", 100000)), ("sharded", sharded("outer/W", 2, 100000)),
               ("stack", stack(plain("outer/W", 100000), [plain("outer/R")], "none", True))]
    jobs = []
    per = 6
    for fname, cache in fronts_:
        apis = ["set", "put", "get", "touch"] + (["ensure"] if fname == "stack" else [])
        for api in apis:
            for i in range(0, len(names), per):
                prog = []
                for nm in names[i:i + per]:
                    o = op(api, nm)
                    o["hash"], o["sec"] = "1", "2"
                    if len(nm.encode("utf-8", "surrogatepass")) > 40 and "/" in nm:
                        o["chunks"] = 0    # the actor's 96-byte content header embeds the key: long names that must be rejected carry an empty value
                    prog.append(o)
                jobs.append(seq_job("C16-%s-%s-%d" % (fname, api, i), "%s:%s" % (fname, api), cache, prog, world=world,
                                    mkdirs=("SRC", "TMP", "outer")))
    # a rejected call must not even run maintenance: tiny caches that are over capacity and hold stale temp files, trigger always firing
    mjobs = []
    bad = [nm for nm in names if nm == "" or nm[0] in "./\\" or "/" in nm]
    rng.shuffle(bad)
    bad = ["", "/abs", "a/b", ".x"] + bad[:Q(8, 60)]
    for fname, cache, dirs in (("plain", plain("outer/W", 3), ["outer/W"]),
                               ("sharded", sharded("outer/W", 2, 2), ["outer/W/.kismet_0000", "outer/W/.kismet_0001"]),
                               ("stack", stack(plain("outer/W", 3), [plain("outer/R")], "none", True), ["outer/W"])):
        w2 = list(world)
        for d in dirs:
            for i in range(5):
                w2.append(op("mkfile", path="@TOP@/%s/f%d" % (d, i), key="f%d" % i, val="old%d" % i, chunks=1, w=0, mode=0o444,
                             mt_ago=900.0 - i, at_ago=1020.0 - i))
            w2.append(op("mkfile", path="@TOP@/%s/.kismet_temp/stale" % d, raw="x", mt_ago=9000.0, at_ago=9000.0))
            # the application's own dot files (one with a name that is not valid UTF-8), older than every entry
            w2.append(op("mkfile", path="@TOP@/%s/.appdata" % d, raw="appdata", mt_ago=5000.0, at_ago=5120.0))
            w2.append(op("mkfile", path="@TOP@/%s/.app-donn" % d, name_hex="e96573", raw="appdata", mt_ago=5000.0, at_ago=4990.0))
        # (the same worlds, with VALID names: maintenance runs and must leave the dot-prefixed namespace alone)
        okprog = []
        for api in ["set", "put", "set", "put"]:
            o = op(api, "fresh%d" % len(okprog))
            o["hash"], o["sec"] = "1", "2"
            okprog.append(o)
        mjobs.append(seq_job("C16-%s-maint-valid" % fname, "%s:valid-names:maintenance-pending" % fname, cache, okprog, world=w2,
                             draw=ALWAYS, mkdirs=("SRC", "TMP", "outer")))
        apis = ["set", "put", "get", "touch"] + (["ensure", "set_tf", "put_tf"] if fname == "stack" else [])
        for api in apis:
            prog = []
            for nm in bad:
                o = op(api, nm)
                o["hash"], o["sec"] = "1", "2"
                if len(nm.encode("utf-8", "surrogatepass")) > 40 and "/" in nm:
                    o["chunks"] = 0
                prog.append(o)
            jobs.append(seq_job("C16-%s-%s-maint" % (fname, api), "%s:%s:maintenance-pending" % (fname, api), cache, prog, world=w2,
                                draw=ALWAYS, mkdirs=("SRC", "TMP", "outer")))
    # the cache directory is named through a symbolic link and "..": the kernel resolves the link first, so outer/link/../W2 with
    # link -> data/store IS outer/data/W2; everything must happen there and nowhere else
    for fname, mk in (("plain", lambda d: plain(d, 100000)), ("sharded", lambda d: sharded(d, 2, 100000)),
                      ("stack", lambda d: stack(plain(d, 100000), [plain("outer/R")], "none", True))):
        w3 = list(world) + [op("mkdir", path="@TOP@/outer/data/store"), op("symlink", path="@TOP@/outer/link", target="data/store")]
        cache = mk("outer/link/../W2")
        prog = []
        for api in ["set", "put", "get", "touch"] + (["ensure"] if fname == "stack" else []):
            o = op(api, "good%s" % api)
            o["hash"], o["sec"] = "1", "2"
            prog.append(o)
        real_roots = [root("outer/data/W2", "sharded" if fname == "sharded" else "plain", "w")] + ([root("outer/R", "plain", "ro")] if fname == "stack" else [])
        jobs.append(seq_job("C16-%s-symlinked-root" % fname, "%s:symlinked-root" % fname, cache, prog, world=w3, draw=ALWAYS,
                            roots=real_roots, mkdirs=("SRC", "TMP", "outer")))
    mons = ["ConfinedStrict", "RejectedOK", "RejectedNoEffect", "OutsideUntouched", "DirValid", "DotFilesUntouched"]

    def key_of(job, mon, ev, evs):
        # the witness is the name class: which kind of name broke out
        p, opi = ev.get("p"), ev.get("opi")
        call = next((e for e in evs if e.get("e") == "call" and e.get("p") == p and e.get("opi") == opi), {})
        nm = call.get("key", "?")
        cls = "slash" if "/" in nm else "plain"
        return "%s@%s" % (mon, cls)
    st = trace_check(work, out, jobs, mons, tag="c16", key_of=key_of)
    st2 = trace_check(work, out, mjobs, ["Confined", "DotFilesUntouched", "OutsideUntouched", "DirValid"], tag="c16m")
    st = merge_stats([st, st2])
    jobs += mjobs
    st = add_pool(work, out, st, ["Confined", "OutsideUntouched", "DotFilesUntouched"])
    cov = coverage_mc(st, [], "every name of the generated set (all sequences over {a . / \\ non-ASCII} up to length %d plus fixed boundary names) x "
                      "{set,put,get,touch,ensure} x {plain,sharded,stacked}, cache placed inside a sentinel tree; every mutating call and every "
                      "snapshot judged by ConfinedStrict/Rejected*/OutsideUntouched" % (4 if TIER == "thorough" else 3),
                      dict(names=len(names), jobs=len(jobs), monitors=mons, exhaustive=True))
    return finish("C16", out, t0, "model_checking", cov, BASE_ASSUME)



# ---------------------------------------------------------------------------
# C07 / C17: directory populations

MARKS = {"unread": -120.0, "equal": 0.0, "read": 5.0}    # atime - mtime


def population_ops(d, files, strays=0, dots=(), temps=()):
    """World-building ops for one directory population.
    files: list of (name, rank, mark); mtime = now - 1000 + 10*rank seconds."""
    ops = [op("mkdir", path="@TOP@/%s" % d)]
    for (name, rank, mark) in files:
        ago = 1000.0 - 10.0 * rank
        ops.append(op("mkfile", path="@TOP@/%s/%s" % (d, name), key=name, val="v" + name, chunks=1, mode=0o444,
                      mt_ago=ago, at_ago=ago - MARKS[mark]))
    for i in range(strays):
        ops.append(op("mkdir", path="@TOP@/%s/sub%d" % (d, i)))
        ops.append(op("mkfile", path="@TOP@/%s/sub%d/inner" % (d, i), raw="x"))
    for (name, ago, isdir) in dots:
        if isinstance(isdir, str):
            # a name that is not valid UTF-8: `isdir` carries the raw bytes (hex) appended to the name; old and marked as read
            ops.append(op("mkfile", path="@TOP@/%s/%s" % (d, name), name_hex=isdir, raw="appdata", mt_ago=ago, at_ago=ago - 5))
        elif isdir:
            ops.append(op("mkdir", path="@TOP@/%s/%s" % (d, name)))
            ops.append(op("mkfile", path="@TOP@/%s/%s/inner" % (d, name), raw="appdir"))
        else:
            ops.append(op("mkfile", path="@TOP@/%s/%s" % (d, name), raw="appdata", mt_ago=ago, at_ago=ago + 120))
    for t in temps:
        name, ago, isdir = t[0], t[1], t[2]
        if len(t) > 3:
            # a temp file whose access time differs from its modification time (only the modification time counts)
            ops.append(op("mkfile", path="@TOP@/%s/.kismet_temp/%s" % (d, name), raw="debris", mt_ago=ago, at_ago=t[3]))
        elif isdir:
            ops.append(op("mkdir", path="@TOP@/%s/.kismet_temp/%s" % (d, name)))
            ops.append(op("utimes", path="@TOP@/%s/.kismet_temp/%s" % (d, name), mt_ago=ago, at_ago=ago))
        else:
            ops.append(op("mkfile", path="@TOP@/%s/.kismet_temp/%s" % (d, name), raw="debris", mt_ago=ago, at_ago=ago))
    return ops


def all_populations(nmax, ranks=(0, 1, 2)):
    marks = list(MARKS)
    for n in range(0, nmax + 1):
        for combo in itertools.product(itertools.product(ranks, marks), repeat=n):
            yield [("f%d" % (i + 1), r, m) for i, (r, m) in enumerate(combo)]


def check_C07(work):
    t0 = time.time()
    out = Outcome("C07")
    rng = random.Random(seed())
    pops = []
    nmax = Q(3, 4)
    for files in all_populations(nmax):
        n = len(files)
        for strays in (0, 1):
            for cap in range(0, n + 2):
                pops.append((files, strays, cap))
    # seeded larger populations
    for _ in range(Q(60, 600)):
        n = rng.randint(4, 12)
        files = [("f%d" % (i + 1), rng.randint(0, 5), rng.choice(list(MARKS))) for i in range(n)]
        pops.append((files, rng.randint(0, 1), rng.randint(0, n + 1)))
    if TIER == "quick":
        # all populations with <= 2 files, a seeded half of the rest
        small = [p for p in pops if len(p[0]) <= 2]
        rest = [p for p in pops if len(p[0]) > 2]
        rng.shuffle(rest)
        pops = small + rest[: len(rest) // 2]
    else:
        # all populations with <= 3 files, a seeded third of those with 4 (78 732 of them: the whole set does not fit the time
        # limit of one trace validation; MCsc5 covers n = 5 exhaustively at the level of the planner) and the seeded larger ones
        small = [p for p in pops if len(p[0]) <= 3]
        four = [p for p in pops if len(p[0]) == 4]
        large = [p for p in pops if len(p[0]) > 4]
        rng.shuffle(four)
        pops = small + four[: len(four) // 3] + large
    jobs = []
    per = 8
    for i in range(0, len(pops), per):
        group = pops[i:i + per]
        # (a) raw_cache::prune, all populations of the group in one actor, each in its own directory
        world, prog, roots = [], [], []
        for k, (files, strays, cap) in enumerate(group):
            d = "D%d" % k
            world += population_ops(d, files, strays)
            prog.append(op("prune", dir="@TOP@/%s" % d, cap=cap))
            roots.append(root(d, "plain", "w"))
        jobs.append(seq_job("C07-prune-%d" % i, "prune", plain("D0", 100000), prog, world=world, roots=roots,
                            cfg_extra={"seq": True}))
    # (b) through the public write path: plain cache whose trigger always fires; sharded shard
    sub = pops[:: Q(9, 3)]
    for i, (files, strays, cap) in enumerate(sub):
        world = population_ops("W", files, strays)
        jobs.append(seq_job("C07-set-%d" % i, "plain-set", plain("W", cap), [op("set", "znew", "new")], world=world, draw=ALWAYS,
                            cfg_extra={"seq": True}))
    for i, (files, strays, cap) in enumerate(sub[:: 3]):
        # all files live in shard 0 of a 2-shard cache (hash pair maps to shards (0,1)); per-shard capacity = ceil(total/2)
        total = max(2, 2 * cap)
        world = population_ops("W/.kismet_0000", files, strays)
        o = op("set", "znew", "new")
        o["hash"], o["sec"] = "1", "2"
        jobs.append(seq_job("C07-shard-%d" % i, "sharded-set", sharded("W", 2, total), [o], world=world, draw=ALWAYS,
                            cfg_extra={"seq": True, "shardcap": max(1, (total + 1) // 2)}, shard_script=[1] * 8))
        # the same population in the OTHER shard: a fresh handle (all load estimates zero) writes to shard 0, its trigger fires, and the
        # maintenance of "a random other shard" must be a full Second Chance pass over shard 1, whatever the handle believes about its load
        world2 = population_ops("W/.kismet_0001", files, strays) + [op("mkdir", path="@TOP@/W/.kismet_0000/.kismet_temp"),
                                                                     op("mkfile", path="@TOP@/W/.kismet_0001/.kismet_temp/stale", raw="x", mt_ago=9000.0, at_ago=9000.0)]
        jobs.append(seq_job("C07-othershard-%d" % i, "sharded-set:other-shard", sharded("W", 2, total), [o, dict(o, key="znew2")], world=world2, draw=ALWAYS,
                            cfg_extra={"seq": True, "shardcap": max(1, (total + 1) // 2)}, shard_script=[1] * 8))
    # (c) an outside party removes one entry while the maintenance runs ("things do disappear from caches"): every call of the
    # maintenance in turn is the moment of the removal; the outcome must still be the planner's on what was listed (PruneOKV) --
    # in particular every OTHER reprieved entry still moves to the back of the queue
    vfiles = [("r1", 0, "read"), ("r2", 1, "read"), ("u1", 2, "unread"), ("r3", 3, "read"), ("u2", 4, "unread")]
    for cap in (2, 3):
        for victim in ("r1", "r2", "u1", "r3"):
            for at in range(2, Q(34, 60), Q(2, 1)):
                world = population_ops("W", vfiles, 0)
                p1 = part(1, plain("W", cap), with_vals([op("set", "znew", "new")], 1), ALWAYS)
                stg = sched_stage(p1, adv=[{"at": at, "path": "W/%s" % victim}], allpoints=True)
                cfg = {"roots": [root("W", "plain", "w")], "front": "plain", "cap": cap, "seq": True}
                jobs.append(job("C07-vanish-%d-%s-%d" % (cap, victim, at), [seq_stage(part(9, plain("SRC/none"), world, NEVER)), stg], cfg, rnd(1, seed()),
                                fam="plain-set:entry-vanishes"))
    mons = ["PruneOK", "MaintPrunes", "RemovalOK", "DirValid"]
    st = trace_check(work, out, jobs, mons, tag="c07")
    st = add_pool(work, out, st, ["PruneOK", "MaintPrunes"], want=('seq',))
    design = design_runs(work, out, Q(["MCsc4"], ["MCsc4", "MCsc5"]))
    cov = coverage_mc(st, design, "directory populations (files x mtime rank incl. ties x read mark {atime<mtime, =, >} x stray subdirectory x capacity 0..n+1), "
                      "exhaustive up to n=%d (quick: n<=2 exhaustive + seeded half of n=3; thorough: n<=3 exhaustive + seeded third of n=4) plus seeded n<=12; maintenance entered "
                      "through raw_cache::prune, plain set, sharded set (the written shard and the other one); before/after snapshots judged by PruneOK (= PlanOK of "
                      "SecondChance.tla lifted to directories)" % Q(2, 3),
                      dict(populations=len(pops), jobs=len(jobs), monitors=mons, exhaustive_up_to=Q(2, 3)))
    return finish("C07", out, t0, "model_checking", cov, BASE_ASSUME)


def check_C17(work):
    t0 = time.time()
    out = Outcome("C17")
    rng = random.Random(seed())
    jobs = []
    ages = [3590, 3598, 3602, 3610, 31536000]
    pops = list(all_populations(Q(2, 3), ranks=(3, 5)))
    rng.shuffle(pops)
    pops = pops[: Q(30, 400)]
    k = 0
    for files in pops:
        n = len(files)
        for cap in sorted(set([0, 1, max(0, n - 1), n + 1])):
            dots = [(".appdata", 2000.0, False), (".appdir", 0, True)]
            if k % 2 == 0:
                dots.append((".newer", 1.0, False))
            # application dot files whose names are not valid UTF-8 (Latin-1 bytes), older than every entry
            dots.append((".caf", 5000.0, "e92e636f6e66"))
            if k % 2 == 1:
                dots.append((".x", 4000.0, "ff"))
            temps = [("debris%d" % i, a, False) for i, a in enumerate(ages)] + [("nested", 4000, True), ("future", -7200, False)]
            # young by modification time, old by access time (a long-running writer; a file staged with atime = mtime - 120 s), and the reverse
            temps += [("longwriter", 5, False, 7200), ("staged", 3540, False, 3660), ("readlately", 7200, False, 5)]
            world = population_ops("W", files, 1, dots=dots, temps=temps)
            prog = [op("set", "znew%d" % k, "new"), op("put", "zput%d" % k, "new2")]
            jobs.append(seq_job("C17-plain-%d" % k, "plain", plain("W", cap), prog, world=world, draw=ALWAYS))
            if k % 3 == 0:
                total = max(2, 2 * cap)
                world = population_ops("W/.kismet_0000", files, 1, dots=dots, temps=temps)
                o = op("set", "znew", "new")
                o["hash"], o["sec"] = "1", "2"
                jobs.append(seq_job("C17-shard-%d" % k, "sharded", sharded("W", 2, total), [o], world=world, draw=ALWAYS,
                                    shard_script=[1] * 8))
            k += 1
    mons = ["RemovalOK", "DotFilesUntouched", "YoungTempKept", "StaleGone", "DirValid", "OutsideUntouched"]

    def key_of(job, mon, ev, evs):
        n = (ev.get("path") or {}).get("n", "")
        cls = "dotfile" if n.startswith(".") and not n.startswith(".kismet") else "other"
        return "%s@%s" % (mon, cls)
    st = trace_check(work, out, jobs, mons, tag="c17", key_of=key_of)
    # a maintenance during which every call fails in turn (a stat of a temp file that fails says nothing about its age: the file stays;
    # a failed listing removes nothing): young temporary files, dot files and entries within capacity survive every one of these runs
    fjobs = []
    for fname, cache, base in (("plain", plain("W", 2), "W"), ("sharded", sharded("W", 2, 4), "W/.kismet_0000")):
        world = population_ops(base, [("a", 0, "read"), ("b", 1, "unread"), ("c", 2, "read")], 0)
        world += [op("mkfile", path="@TOP@/%s/.kismet_temp/inflight" % base, raw="x", mt_ago=1.0, at_ago=1.0),
                  op("mkfile", path="@TOP@/%s/.kismet_temp/tenmin" % base, raw="y", mt_ago=600.0, at_ago=600.0),
                  op("mkfile", path="@TOP@/%s/.kismet_temp/stale" % base, raw="z", mt_ago=7300.0, at_ago=7300.0),
                  op("mkfile", path="@TOP@/%s/.appstate" % base, raw="keep", mt_ago=9000.0, at_ago=9000.0)]
        o = op("set", "znew", "new")
        o["hash"], o["sec"] = "1", "2"
        v = seq_stage(part(1, cache, with_vals([o], 1), ALWAYS, shard_script=[1] * 8))
        v["victim"] = True
        cfg = {"roots": roots_of(cache), "front": cache["kind"], "cap": cache["cap"]}
        if fname == "sharded":
            cfg["shardcap"] = 2
        errs = {"stat": ["EIO", "EACCES", "ESTALE", "ENOENT"], "getdents": ["EIO"], "open": ["EIO", "EMFILE", "ESTALE"], "unlink": ["EIO", "EACCES"],
                "utimens": ["EIO"], "close": ["EIO"], "*": []}
        fjobs.append(job("C17-fault-%s" % fname, [seq_stage(part(9, plain("SRC/none"), world, NEVER)), v], cfg,
                         {"kind": "fault", "part": 1, "runs": Q(200, 600), "errnos": errs}, fam="%s:failing-calls" % fname))
    st2 = trace_check(work, out, fjobs, ["RemovalOK", "DotFilesUntouched", "YoungTempKept", "DirValid", "OutsideUntouched"], tag="c17f", key_of=key_of)
    for k_ in ("runs", "events", "states", "violations", "fsmodel_mismatches"):
        st[k_] = st.get(k_, 0) + st2.get(k_, 0)
    jobs += fjobs
    st = add_pool(work, out, st, ["RemovalOK", "DotFilesUntouched", "YoungTempKept", "StaleGone"])
    design = design_runs(work, out, Q(["MCcleanq"], ["MCcleanq", "MCclean"]))
    cov = coverage_mc(st, design, "populations of key files + dot-prefixed application files and directories + .kismet_temp debris aged "
                      "{limit-10s, limit-2s, limit+2s, limit+10s, 1 year} + nested directories, capacities {0,1,n-1,n+1}; plain and sharded; "
                      "every unlink/rmdir and every snapshot judged by RemovalOK/DotFilesUntouched/YoungTempKept/StaleGone",
                      dict(jobs=len(jobs), monitors=mons))
    return finish("C17", out, t0, "model_checking", cov, BASE_ASSUME)



# ---------------------------------------------------------------------------
# C02 / C18 / C03: scenarios = (front, operation, pre-state)

def scenario_table(thorough):
    """Yields (name, cache, roots, cfg_extra, setup_parts, victim_prog, key)."""
    k = "k"
    H = {"hash": "1", "sec": "2"}      # shards (0, 1) of a 2-shard cache
    H2 = {"hash": "3", "sec": "4"}     # shards (1, 0)
    out = []

    def add(name, cache, setup, prog, extra=None):
        out.append((name, cache, setup, prog, extra or {}))

    for fname, mk in (("plain", lambda cap: plain("W", cap)), ("sharded", lambda cap: sharded("W", 2, max(2, cap)))):
        big = mk(100000)
        small = mk(1) if fname == "plain" else mk(2)
        for api in ("set", "put"):
            add("%s:%s:nodirs" % (fname, api), big, [], [op(api, k, **H)])
            add("%s:%s:absent" % (fname, api), big, [op("temp_dir", key=k, **H)], [op(api, k, **H)])
            add("%s:%s:present" % (fname, api), big, [op("set", k, "old", **H)], [op(api, k, **H)])
            add("%s:%s:overcap" % (fname, api), small, [op("set", "k3", "o3", **{"hash": "5", "sec": "9"}), op("set", k, "old", **H), op("get", k, **H),
                                                     op("set", "k4", "o4", **{"hash": "5", "sec": "9"})],
                [op(api, "k5", **{"hash": "5", "sec": "9"})], {"draw": ALWAYS})
        add("%s:temp_dir:nodirs" % fname, big, [], [op("temp_dir", key=k, **H)])
        add("%s:get:present" % fname, big, [op("set", k, "old", **H)], [op("get", k, **H)])
        add("%s:touch:present" % fname, big, [op("set", k, "old", **H)], [op("touch", k, **H)])
    # sharded: key lives in the shard that the load order makes the alternate one
    add("sharded:set:secondary", sharded("W", 2, 100000), [op("mkfile", path="@TOP@/W/.kismet_0001/k", key=k, val="old2", chunks=1, mode=0o444, w=8)],
        [op("set", k, **H)])
    add("sharded:put:secondary", sharded("W", 2, 100000), [op("mkfile", path="@TOP@/W/.kismet_0001/k", key=k, val="old2", chunks=1, mode=0o444, w=8)],
        [op("put", k, **H)])
    for wname, wr in (("stack", plain("W", 100000)), ("stacksh", sharded("W", 2, 100000))):
        c = stack(wr, [plain("R1")], "none")
        ro_set = ("ro", [op("set", k, "ro1"), op("set", "k1", "ro1")])
        add("%s:ensure:miss" % wname, c, [], [op("ensure", "k9", chunks=2, **H)])
        add("%s:ensure:promote" % wname, c, [ro_set], [op("ensure", k, **H)])
        add("%s:ensure:hit" % wname, c, [op("set", k, "old", **H)], [op("ensure", k, **H)])
        add("%s:gou:replace" % wname, c, [op("set", k, "old", **H)], [op("gou", k, judge="replace", **H)])
        add("%s:gou:promote" % wname, c, [ro_set], [op("gou", k, judge="promote", **H)])
        add("%s:set_tf:absent" % wname, c, [], [op("set_tf", k, chunks=2, **H)])
        add("%s:put_tf:present" % wname, c, [op("set", k, "old", **H)], [op("put_tf", k, **H)])
        add("%s:set:absent" % wname, c, [], [op("set", k, **H)])
        add("%s:put:absent" % wname, c, [], [op("put", k, **H)])
        add("%s:get:secondary" % wname, c, [ro_set], [op("get", k, **H)])
    return out


def scenario_job(jid, fam, sc, explore, battery=True, age=True, followup=None):
    name, cache, setup, prog, extra = sc
    draw = extra.get("draw", NEVER)
    stages = []
    world_ops = [o for o in setup if not isinstance(o, tuple) and o["api"] in ("mkfile", "mkdir")]
    lib_ops = [o for o in setup if not isinstance(o, tuple) and o["api"] not in ("mkfile", "mkdir")]
    ro_ops = [o[1] for o in setup if isinstance(o, tuple)]
    setup_parts = []
    if world_ops:
        setup_parts.append(part(9, plain("SRC/none"), world_ops, NEVER))
    if lib_ops:
        setup_parts.append(part(8, cache, with_vals(lib_ops, 8), NEVER))
    for ro_prog in ro_ops:
        setup_parts.append(part(7, plain("R1"), with_vals(ro_prog, 7), NEVER))
    if setup_parts:
        stages.append(seq_stage(*setup_parts))
    v = seq_stage(part(1, cache, with_vals(prog, 1), draw, shard_script=[1, 0, 1, 0]))
    v["victim"] = True
    stages.append(v)
    key = prog[0].get("key", "k")
    hs = {x: prog[0][x] for x in ("hash", "sec") if x in prog[0]}
    if followup is not None:
        stages.append(seq_stage(part(2, cache, with_vals(followup, 2), NEVER, shard_script=[1, 0, 1, 0])))
    if battery:
        b = [op("get", key, **hs), op("touch", key, **hs), op("put", "k2", hash="3", sec="4"), op("set", key, **hs), op("get", key, **hs)]
        if cache["kind"] == "stack":
            b.append(op("ensure", "k8", hash="3", sec="4"))
        stages.append(seq_stage(part(2, cache, with_vals(b, 2), ALWAYS, shard_script=[1, 0, 1, 0, 1, 0])))
    if age:
        stages.append({"tracer_op": "age_temp", "secs": 3700})
        b2 = [op("set", "k6", hash="1", sec="2"), op("set", "k7", hash="3", sec="4"), op("get", key, **hs)]
        stages.append(seq_stage(part(3, cache, with_vals(b2, 3), ALWAYS, shard_script=[1, 0, 1, 0, 1, 0])))
    cfg = {"roots": roots_of(cache), "front": cache["kind"], "scenario": name}
    wc = cache.get("writer", cache) if cache["kind"] == "stack" else cache
    if isinstance(wc, dict) and "cap" in wc:
        cfg["cap"] = wc["cap"]
        if wc.get("kind") == "sharded":
            cfg["shardcap"] = (wc["cap"] + wc["shards"] - 1) // wc["shards"]
    if cache["kind"] == "stack":
        cfg["autosync"] = True
    return job(jid, stages, cfg, explore, fam=fam)


def check_C02(work):
    t0 = time.time()
    out = Outcome("C02")
    jobs = []
    scs = scenario_table(TIER == "thorough")
    for i, sc in enumerate(scs):
        if sc[3][0]["api"] in ("get", "touch"):
            continue
        ex = {"kind": "crash", "part": 1, "runs": 400}
        if TIER == "quick" and not sc[0].startswith("plain"):
            ex["stride"] = 3
            ex["offset"] = (seed() + i) % 3
        jobs.append(scenario_job("C02-%d" % i, sc[0], sc, ex))
        if sc[3][0]["api"] in ("put", "put_tf", "ensure", "gou"):
            # the same without the battery (whose set replaces the victim's entry): what an insert-if-absent left behind -- possibly a
            # temporary name that is a second link of the published entry -- ages and must be swept while the entry stays cached
            jobs.append(scenario_job("C02-%d-nb" % i, sc[0] + ":aged-at-once", sc, dict(ex), battery=False))
    mons = ["DirValid", "DebrisConfined", "NoErr", "HandleContentOK", "RemovalOK", "YoungTempKept", "StaleGone", "ReadOnlyFirst", "Immutable"]

    def key_of(job, mon, ev, evs):
        inj = (evs[0].get("cfg") or {}).get("inject") or {}
        return "%s@%s@before-%s" % (mon, job.get("fam"), inj.get("call", "none"))
    st = trace_check(work, out, jobs, mons, tag="c02", key_of=key_of)
    # behaviours of Kismet.tla with one crash anywhere, replayed into the real library
    st = add_replay(work, out, st, ["DirValid", "DebrisConfined", "ReadOnlyFirst", "Immutable"], Q(150, 1500), names=["RPcrash", "RPcrashm"])
    design = design_runs(work, out, Q(["MCcrashq"], ["MCcrashq", "MCcrash"]))
    ms = st.get("mstats", {})
    cov = dict(evaluations=st["runs"], distinct_nontrivial=ms.get("crashes", 0),
               rule="for each (operation, front end, pre-state) scenario: one clean run, then one run per system call of the operation with the process "
                    "SIGKILLed at the entry of that call (quick: every call for plain, every third for the other front ends); after the kill a fresh process "
                    "runs get/touch/put/set/ensure with maintenance, debris is aged past the limit, maintenance runs again. distinct_nontrivial = runs in which "
                    "the kill was actually delivered mid-operation (counted by the trace specification).",
               samples=st["samples"][:3], scenarios=[s[0] for s in scs], monitors=mons, trace_events_validated=st["events"],
               states=st["states"], fsmodel_mismatches=st["fsmodel_mismatches"], monitor_antecedents=ms,
               model_behaviours_replayed=st.get("replay"),
               design_level=[dict(cfg=d["cfg"], states=d["states"], transitions=d["transitions"], ok=d["ok"]) for d in design])
    return finish("C02", out, t0, "fault_enumeration", cov, BASE_ASSUME + ["process crash (SIGKILL), not power loss"])


ERRNOS_Q = {"open": ["EIO", "EMFILE"], "write": ["ENOSPC"], "copy": ["EIO"], "fsync": ["EIO"], "rename": ["EIO", "ESTALE", "ENOENT", "EXDEV"], "link": ["EIO", "EACCES", "EPERM", "EMLINK", "EXDEV"],
            "unlink": ["EIO"], "chmod": ["EACCES"], "utimens": ["EIO"], "getdents": ["EIO"], "stat": ["EIO", "ESTALE"], "close": ["EIO"],
            "mkdir": ["EACCES"], "read": ["EIO"], "*": []}
ERRNOS_T = {"open": ["EIO", "EACCES", "EMFILE", "ENOSPC", "ESTALE"], "write": ["EIO", "ENOSPC"], "copy": ["EIO", "ENOSPC"], "fsync": ["EIO"],
            "rename": ["EIO", "EACCES", "ESTALE", "ENOENT"], "link": ["EIO", "EACCES", "ESTALE", "EMFILE", "ENOENT", "EPERM", "ENOSYS", "EOPNOTSUPP", "EMLINK", "EXDEV"], "unlink": ["EIO", "EACCES", "ESTALE"],
            "chmod": ["EIO", "EACCES", "ESTALE"], "utimens": ["EIO", "EACCES", "ESTALE"], "getdents": ["EIO", "ESTALE"],
            "stat": ["EIO", "ESTALE", "EACCES"], "close": ["EIO"], "mkdir": ["EIO", "EACCES", "ENOSPC"], "read": ["EIO"], "*": []}


def check_C18(work):
    t0 = time.time()
    out = Outcome("C18")
    jobs = []
    scs = scenario_table(TIER == "thorough")
    for i, sc in enumerate(scs):
        name, cache, setup, prog, extra = sc
        ex = {"kind": "fault", "part": 1, "runs": 1500, "errnos": Q(ERRNOS_Q, ERRNOS_T)}
        o = dict(prog[0])
        key = o.get("key", "k")
        hs = {x: o[x] for x in ("hash", "sec") if x in o}
        follow = [dict(o), op("get", key, **hs)] if o["api"] not in ("temp_dir",) else [dict(o)]
        j = scenario_job("C18-%d" % i, name, sc, ex, battery=False, age=False, followup=follow)
        # the faulted participant itself also looks the key up after its operation
        j["stages"][-2]["parts"][0]["prog"] += with_vals([op("get", key, **hs)], 1) if o["api"] in ("set", "put", "set_tf", "put_tf", "ensure", "gou") else []
        jobs.append(j)
    mons = ["DirValid", "FaultOK", "FollowUpOK", "NoLeak", "HandleContentOK", "HandleModeOK", "ReadsLastSet", "DebrisConfined", "Immutable", "PutNeverReplaces"]

    def key_of(job, mon, ev, evs):
        inj = (evs[0].get("cfg") or {}).get("inject") or {}
        return "%s@%s@%s:%s" % (mon, job.get("fam"), inj.get("call", "none"), inj.get("errno", ""))
    # conform=True: every fault-injected run must also be a path of Kismet.tla (whose control flow is total over call results)
    st = trace_check(work, out, jobs, mons, tag="c18", key_of=key_of, conform=True)
    # behaviours of Kismet.tla with one failing call (position uniform over the behaviour), replayed into the real library
    st = add_replay(work, out, st, ["DirValid", "NoLeak", "HandleContentOK", "Immutable", "DebrisConfined"], Q(150, 1500),
                    names=["RPfault", "RPfaultsh", "RPfaulte", "RPfault2", "RPfaults", "RPfaultw", "RPfaultg"])
    # persistent failures (every attempt of one class of calls fails): reported or harmless, nothing leaked, directories valid,
    # operations that do not need the failing call succeed
    st2 = trace_check(work, out, persistent_jobs("C18"), ["DirValid", "FaultOK", "FollowUpOK", "NoLeak", "HandleContentOK", "Immutable"], tag="c18p")
    for k_ in ("runs", "events", "states", "violations", "fsmodel_mismatches"):
        st[k_] = st.get(k_, 0) + st2.get(k_, 0)
    for k_, v_ in (st2.get("mstats") or {}).items():
        st.setdefault("mstats", {})
        st["mstats"][k_] = st["mstats"].get(k_, 0) + v_
    design = design_runs(work, out, Q(["MCfault1", "MCfault2"], ["MCfault1", "MCfault2", "MCfault3"]))
    ms = st.get("mstats", {})
    cov = dict(evaluations=st["runs"], distinct_nontrivial=ms.get("injected", 0),
               rule="for each scenario (operation x front end x pre-state, incl. sharded key-in-alternate-shard): one clean run, then one run per library system call "
                    "of the operation x errno plausible for that call class, with the call skipped and failed by the tracer (orig_rax=-1, rax=-errno); then the same "
                    "operation and a lookup are re-issued by a fresh process. distinct_nontrivial = runs in which the injected call was really reached.",
               samples=st["samples"][:3], scenarios=[s[0] for s in scs], monitors=mons, trace_events_validated=st["events"],
               states=st["states"], fsmodel_mismatches=st["fsmodel_mismatches"], monitor_antecedents=ms,
               model_conformant=(len(st.get("drifts", [])) == 0), ops_conforming_to_Kismet_tla=st.get("conf_ops", 0),
               model_behaviours_replayed=st.get("replay"),
               design_level=[dict(cfg=d["cfg"], states=d["states"], transitions=d["transitions"], ok=d["ok"], never_taken=d.get("never_taken", [])) for d in design])
    return finish("C18", out, t0, "fault_enumeration", cov, BASE_ASSUME + ["one fault per run"])


def check_C03(work):
    t0 = time.time()
    out = Outcome("C03")
    jobs = []
    scs = [sc for sc in scenario_table(True) if sc[1]["kind"] == "stack"]
    for i, sc in enumerate(scs):
        for chunks in (1, 3):
            sc2 = (sc[0], sc[1], sc[2], [dict(o, chunks=chunks) for o in sc[3]], sc[4])
            # clean record run + every fsync of the operation failing in turn
            # (also the errnos a filesystem without fsync support would give: a failed flush is never followed by publication, whatever the reason)
            # ... and every chmod, with the errnos of filesystems without Unix permissions: a file that could not be made read-only is not published)
            ex = {"kind": "fault", "part": 1, "runs": 120, "errnos": {"fsync": ["EIO", "EINVAL", "ENOSYS", "EOPNOTSUPP"],
                                                                      "chmod": ["EPERM", "EACCES", "ENOSYS", "EOPNOTSUPP"], "*": []}}
            j = scenario_job("C03-%d-%d" % (i, chunks), "%s:chunks%d" % (sc[0], chunks), sc2, ex, battery=False, age=False,
                             followup=[op("get", sc[3][0].get("key", "k"), hash="1", sec="2")])
            if TIER == "thorough" and chunks == 3:
                j["chunk"] = 262145
            jobs.append(j)
    # multi-step histories on tiny caches (maintenance inside every write): a put/set onto a key that its own
    # maintenance evicts first, overwrites, promotions into a full cache -- every publish must still be flushed first
    rng = random.Random(seed())
    for wname, wr in (("stack", plain("W", 1)), ("stacksh", sharded("W", 2, 2))):
        c = stack(wr, [plain("R1")], "none")
        hist = [op("put", "a", hash="1", sec="2"), op("put", "b", hash="1", sec="2"), op("get", "a", hash="1", sec="2"),
                op("get", "b", hash="1", sec="2"), op("put", "a", hash="1", sec="2"), op("set", "b", hash="1", sec="2"),
                op("put_tf", "a", hash="1", sec="2"), op("ensure", "c", hash="1", sec="2"), op("put", "c", hash="1", sec="2")]
        jobs.append(seq_job("C03-hist-%s" % wname, "%s:history" % wname, c, hist, draw=ALWAYS, shard_script=[1, 0] * 10))
        for r in range(Q(6, 40)):
            keys = ["a", "b", "c"]
            hist = []
            for i in range(rng.choice([6, 10])):
                api = rng.choice(["put", "set", "get", "put_tf", "set_tf", "ensure", "touch"])
                hist.append(op(api, rng.choice(keys), hash="1", sec="2"))
            jobs.append(seq_job("C03-rnd-%s-%d" % (wname, r), "%s:history" % wname, c, hist, draw=ALWAYS, shard_script=[1, 0] * 10))
    # the same histories through a cache built from a builder that has already produced another cache (`take()` leaves the builder
    # in its default state: auto_sync on)
    for wname, wr in (("stack", plain("W", 3)), ("stacksh", sharded("W", 2, 4))):
        c = dict(stack(wr, [plain("R1")], "none"), builder="reused")
        hist = [op("put", "a", hash="1", sec="2"), op("set", "b", hash="1", sec="2"), op("put_tf", "c", hash="1", sec="2"),
                op("set_tf", "a", hash="1", sec="2"), op("ensure", "d", hash="1", sec="2"), op("gou", "e", judge="replace", hash="1", sec="2"),
                op("get", "a", hash="1", sec="2")]
        jobs.append(seq_job("C03-reused-%s" % wname, "%s:reused-builder" % wname, c, hist, draw=ALWAYS, shard_script=[1, 0] * 10))
    # values staged on ANOTHER filesystem than the cache (rename / link fail with EXDEV): whatever the library does about it, nothing that
    # was not flushed may appear under a key name
    for wname, wr in (("stack", plain("W", 100)), ("stacksh", sharded("W", 2, 100))):
        c = stack(wr, [plain("R1")], "none")
        hist = [op(api, "x%d" % i, hash="1", sec="2", srcdir="@XDEV@", chunks=ch)
                for i, (api, ch) in enumerate([("set", 1), ("put", 2), ("set_tf", 1), ("put_tf", 3), ("set", 3)])]
        hist += [op("get", "x0", hash="1", sec="2"), op("get", "x3", hash="1", sec="2")]
        jobs.append(seq_job("C03-xdev-%s" % wname, "%s:cross-device-source" % wname, c, hist, draw=ALWAYS, shard_script=[1, 0] * 10))
    mons = ["DurableFirst", "ReadOnlyFirst", "Immutable", "Mode0444", "DirValid"]

    def key_of(job, mon, ev, evs):
        inj = (evs[0].get("cfg") or {}).get("inject") or {}
        return "%s@%s@%s" % (mon, job.get("fam"), inj.get("call", "clean"))
    st = trace_check(work, out, jobs, mons, tag="c03", key_of=key_of, conform=True)
    # a filesystem that refuses chmod (no Unix permissions, foreign owner): once, or every time, in a cache whose directories exist already
    # (no retry hides a single failure): a source that could not be made read-only is not published -- path-based set / put of sources
    # with write bits, the *_temp_file variants, ensure
    cjobs = []
    for wname, wr in (("stack", plain("W", 100)), ("stacksh", sharded("W", 2, 100)), ("plain", None)):
        c = stack(wr, [plain("R1")], "none") if wr else plain("W", 100)
        src = {} if wr is None else {"srcdir": "@TOP@/SRC"}
        hist = [op("set", "x1", hash="1", sec="2", **src), op("put", "x2", hash="1", sec="2", **src), op("set", "x3", hash="1", sec="2", srcmode=0o644, **src),
                op("put", "x4", hash="1", sec="2", srcmode=0o666, **src), op("set", "x1", hash="1", sec="2", srcmode=0o664, **src)]
        if wr:
            hist += [op("set_tf", "x5", hash="1", sec="2"), op("put_tf", "x6", hash="1", sec="2"), op("ensure", "x7", hash="1", sec="2")]
        for er in ("EPERM", "EACCES", "ENOSYS", "EOPNOTSUPP"):
            for count in (None, 1, 2):
                fa = {"call": "chmod", "errno": er}
                if count:
                    fa["count"] = count
                cj = seq_job("C03-chmod-%s-%s-%s" % (wname, er, count), "%s:chmod-refused:%s" % (wname, "always" if not count else "x%d" % count), c, hist,
                             pre=[op("set", "warm", "w", hash="1", sec="2", **src)], draw=NEVER, shard_script=[1, 0] * 10, fault_all=fa)
                cj["op_call_limit"] = 600
                cjobs.append(cj)
    st2 = trace_check(work, out, cjobs, ["ReadOnlyFirst", "Immutable", "Mode0444", "DirValid"], tag="c03c")
    for k_ in ("runs", "events", "states", "violations", "fsmodel_mismatches"):
        st[k_] = st.get(k_, 0) + st2.get(k_, 0)
    jobs += cjobs
    st = add_pool(work, out, st, ["DurableFirst", "Immutable"])
    # behaviours of the stacked model (set / put / *_temp_file staged outside the cache, ensure miss and promotion, one failing call) replayed
    st = add_replay(work, out, st, ["DurableFirst", "ReadOnlyFirst", "Immutable", "Mode0444", "DirValid"], Q(60, 600),
                    names=["RPstack", "RPpromote", "RPstackw", "RPfaultw", "RPfaulte", "RPgou", "RPgoum", "RPfaultg"])
    ms = st.get("mstats", {})
    design = design_runs(work, out, Q(["MCstack2", "MCstack3", "MCstack4", "MCstack5q"], ["MCstack2", "MCstack3", "MCstack4", "MCstack5", "MCstack6", "MCfault3"]))
    cov = coverage_mc(st, design, "every publishing API path of the stacked cache (set, put, set_temp_file, put_temp_file, ensure miss/hit/promote, get_or_update "
                      "replace/promote) x {plain, sharded} writer x {1, 3} chunks, complete system-call trace; then every fsync of the operation failing in turn; "
                      "per-inode write/fsync/chmod/link/rename order judged by DurableFirst (flushed after the last write, not failed, read-only, before the "
                      "name appears), Immutable, Mode0444", dict(jobs=len(jobs), monitors=mons, fsync_faults=ms.get("injected", 0)))
    return finish("C03", out, t0, "model_checking", cov, BASE_ASSUME + ["whether the kernel's fsync is honest is outside the model"])


# ---------------------------------------------------------------------------
# the stacked-cache matrix (C13, C14, C15, C19)

def stack_points(checkers=("none",), ops=None, pops=("A", "B", "notfound", "error")):
    """All worlds of Stack.tla: writer kind x 0-2 read-only levels (plain/sharded) x content per level x operation x judge x populate x checker."""
    ops = ops or ["get", "touch", "ensure", "gou", "set", "put", "set_tf", "put_tf"]
    for writer in ("none", "plain", "sharded"):
        for nr in ((0, 1, 2, 3) if writer == "none" else (0, 1, 2)):      # stacks of 1-3 levels, write side optional
            for rkinds in itertools.product(("plain", "sharded"), repeat=nr):
                for w in (("none",) if writer == "none" else ("none", "A", "B")):
                    for rs in itertools.product(("none", "A", "B"), repeat=nr):
                        for o in ops:
                            judges = ("accept", "promote", "replace") if o == "gou" else ("",)
                            for j in judges:
                                ps = pops if o in ("ensure", "gou") else (("A", "B") if o in ("set", "put", "set_tf", "put_tf") else ("",))
                                for pop in ps:
                                    for ck in checkers:
                                        yield dict(writer=writer, rkinds=list(rkinds), w=w, rs=list(rs), op=o, judge=j, pop=pop, checker=ck)


def stack_job(jid, pt, idx, umask=None, ro_only=False):
    key = "k"
    logck = pt["checker"] == "log"
    tagw, tagr, tagp = (20, 20, 29) if logck else (0, 0, 0)
    world = []
    mk = ["SRC", "TMP"]

    def plant(rootdir, kind, val, tag, secondary):
        d = rootdir if kind == "plain" else "%s/.kismet_%04x" % (rootdir, 1 if secondary else 0)
        if pt["op"] == "touch" and idx % 2 == 0 and rootdir != "W":
            # a read-only copy written by a host whose clock is ahead: its mtime lies in the future
            if kind != "plain":
                world.append(op("mkdir", path="@TOP@/%s/.kismet_%04x" % (rootdir, 0 if secondary else 1)))
            return op("mkfile", path="@TOP@/%s/%s" % (d, key), key=key, val=val, chunks=1, w=tag, mode=0o444, mt_ago=-3600.0, at_ago=-3480.0)
        if kind != "plain":
            # a populated sharded directory has its other shard directories too
            world.append(op("mkdir", path="@TOP@/%s/.kismet_%04x" % (rootdir, 0 if secondary else 1)))
        return op("mkfile", path="@TOP@/%s/%s" % (d, key), key=key, val=val, chunks=1, w=tag, mode=0o444, mt_ago=500.0, at_ago=620.0)
    wcache = None
    roots = []
    if pt["writer"] != "none":
        wcache = plain("W") if pt["writer"] == "plain" else sharded("W", 2)
        roots.append(root("W", pt["writer"], "w"))
        if pt["w"] != "none":
            world.append(plant("W", pt["writer"], pt["w"], tagw, idx % 3 == 1))
    readers = []
    for i, (rk, rc) in enumerate(zip(pt["rkinds"], pt["rs"])):
        rd = "R%d" % (i + 1)
        readers.append(plain(rd) if rk == "plain" else {"kind": "sharded", "dir": "@TOP@/" + rd, "shards": 2})
        roots.append(root(rd, rk, "ro"))
        if rc != "none":
            world.append(plant(rd, rk, rc, (tagr + i + 1) if logck else 0, (idx + i) % 2 == 1))
        elif (idx + i) % 2 == 0:
            mk.append(rd)       # an existing but empty read-only directory (otherwise it does not exist at all)
    if ro_only:
        cache = ro(readers, pt["checker"])
    else:
        cache = stack(wcache, readers, pt["checker"])
    o = op(pt["op"], key, hash="1", sec="2", w=tagp, srcdir="@TOP@/SRC")
    if pt["op"] in ("ensure", "gou"):
        o["populate"] = "value" if pt["pop"] in ("A", "B") else pt["pop"]
        o["val"] = pt["pop"] if pt["pop"] in ("A", "B") else "X"
        if pt["op"] == "gou":
            o["judge"] = pt["judge"]
    elif pt["op"] in ("set", "put", "set_tf", "put_tf"):
        o["val"] = pt["pop"]
    sw = dict(writer=pt["writer"], w=pt["w"], rs=pt["rs"], checker=("none" if pt["checker"].startswith("cleared") else pt["checker"]), op=pt["op"], judge=pt["judge"] or "accept",
              pop=pt["pop"] or "A", key=key, tagw=tagw, tagr=tagr, tagp=tagp)
    cfg = {"roots": roots, "front": "ro" if ro_only else "stack", "sw": sw, "autosync": True, "checker": pt["checker"], "cap": 100000}
    stages = []
    if world:
        stages.append(seq_stage(part(9, plain("SRC/none"), world, NEVER)))
    p1 = part(1, cache, [o], NEVER)
    if umask is not None:
        p1["umask"] = umask
    stages.append(seq_stage(p1))
    fam = "%s|%s|w=%s|rs=%s|%s%s|pop=%s|ck=%s" % (pt["writer"], ",".join(pt["rkinds"]), pt["w"], ",".join(pt["rs"]), pt["op"],
                                                 ("(" + pt["judge"] + ")") if pt["judge"] else "", pt["pop"], pt["checker"])
    return job(jid, stages, cfg, None, mkdirs=tuple(mk), fam=fam)


def disagree(pt):
    vals = [v for v in [pt["w"]] + pt["rs"] if v != "none"]
    return len(set(vals)) > 1 or (pt["pop"] in ("A", "B") and vals and pt["pop"] != vals[0])


def matrix_check(work, prop, mons, checkers, frac, rule, extra_jobs=(), umasks=(None,), level="model_checking", always=None, extra_checks=(),
                 design_cfgs=("MCstack",), replays=None, conform_extra=False):
    t0 = time.time()
    out = Outcome(prop)
    rng = random.Random(seed())
    pts = list(stack_points(checkers=checkers))
    chosen = []
    for i, pt in enumerate(pts):
        if frac >= 1.0 or (always and always(pt)) or rng.random() < frac:
            chosen.append((i, pt))
    jobs = []
    for n, (i, pt) in enumerate(chosen):
        jobs.append(stack_job("%s-%d" % (prop, i), pt, i, umask=umasks[n % len(umasks)]))
    # the read-only stack used alone
    for i, pt in enumerate(stack_points(checkers=checkers, ops=["get", "touch"])):
        if pt["writer"] == "none" and (frac >= 1.0 or rng.random() < max(frac, 0.3)):
            jobs.append(stack_job("%s-ro-%d" % (prop, i), pt, i, ro_only=True))
    if not conform_extra:
        jobs += list(extra_jobs)
    st = trace_check(work, out, jobs, mons, tag=prop.lower())
    if conform_extra:
        # these executions must also be paths of Kismet.tla (TraceKismet)
        st2 = trace_check(work, out, list(extra_jobs), mons, tag=prop.lower() + "e", conform=True)
        for k_ in ("runs", "events", "states", "violations", "fsmodel_mismatches", "conf_ops"):
            st[k_] = st.get(k_, 0) + st2.get(k_, 0)
        st["drifts"] = st.get("drifts", []) + st2.get("drifts", [])
        for k_, v_ in (st2.get("mstats") or {}).items():
            st.setdefault("mstats", {})
            st["mstats"][k_] = st["mstats"].get(k_, 0) + v_
        jobs += list(extra_jobs)
    for n_, (js_, ms_) in enumerate(extra_checks):
        # families with their own monitors (their worlds are not judged by the matrix's relation)
        st2 = trace_check(work, out, list(js_), list(ms_), tag="%sx%d" % (prop.lower(), n_))
        for k_ in ("runs", "events", "states", "violations", "fsmodel_mismatches"):
            st[k_] = st.get(k_, 0) + st2.get(k_, 0)
        for k_, v_ in (st2.get("mstats") or {}).items():
            st.setdefault("mstats", {})
            st["mstats"][k_] = st["mstats"].get(k_, 0) + v_
        jobs += list(js_)
    pm = [m for m in mons if m in POOL_OK]
    if pm:
        st = add_pool(work, out, st, pm)
    if replays:
        st = add_replay(work, out, st, replays[1], replays[2], names=replays[0])
    design = design_runs(work, out, list(design_cfgs))
    cov = coverage_mc(st, design, rule, dict(matrix_points_total=len(pts), matrix_points_run=len(chosen), jobs=len(jobs), monitors=mons,
                                             exhaustive=(frac >= 1.0)))
    return finish(prop, out, t0, level, cov, BASE_ASSUME)


def c13_race_jobs():
    """get_or_update(Replace) on a hit while another writer works on the same key: the replaced value is stored and returned all the same."""
    jobs = []
    k = "k"
    for fr in fronts(100000, ("stack", "stacksh")):
        for i, (a, b, pre) in enumerate([([U(k, "replace")], [E(k)], ()), ([U(k, "replace")], [P(k), G(k)], ()), ([U(k, "replace")], [S(k)], ()),
                                         ([U(k, "replace")], [E(k)], ((k, "old"),)), ([U(k, "replace")], [U(k, "promote")], ())]):
            fam = "%s:race:%s||%s%s" % (fr[0], prog_name(a), prog_name(b), ":pre" if pre else "")
            jobs.append(conc_job("C13-race-%s-%d" % (fr[0], i), fam, fr, (a, b), bursts(Q(60, 300)), prefill=pre))
            jobs.append(conc_job("C13-race-%s-%d-r" % (fr[0], i), fam, fr, (a, b), rnd(Q(20, 300), seed() + i), prefill=pre))
    return jobs


def c13_fault_jobs():
    """The write cache holds A, a read-only level holds B, populate would produce C, and every library call of the lookups fails in turn
    with an error that does not mean "gone": a lookup fails or answers A -- a failing look at the write cache is not a miss."""
    jobs = []
    hk = dict(hash="1", sec="2")
    errs = {"open": ["EIO", "EMFILE", "EACCES"], "stat": ["EIO", "EACCES"], "utimens": ["EIO"], "lseek": ["EIO"], "*": []}
    for wname, wr, wd in (("stack", plain("W", 100), "W"), ("stacksh", sharded("W", 2, 100), shard_dir("W", shard_ids(1, 2, 2)[0]))):
        cache = stack(wr, [plain("R1")], "none")
        world = [op("mkfile", path="@TOP@/%s/k" % wd, key="k", val="A", chunks=1, w=0, mode=0o444, mt_ago=300.0, at_ago=420.0),
                 op("mkfile", path="@TOP@/R1/k", key="k", val="B", chunks=1, w=0, mode=0o444, mt_ago=500.0, at_ago=620.0)]
        prog = [op("ensure", "k", "C", **hk), dict(op("gou", "k", "C", **hk), judge="accept"), dict(op("gou", "k", "C", **hk), judge="promote"), op("get", "k", **hk)]
        v = seq_stage(part(1, cache, prog, NEVER))
        v["victim"] = True
        cfg = {"roots": roots_of(cache), "front": "stack", "autosync": True, "expectval": "A"}
        jobs.append(job("C13-fault-%s" % wname, [seq_stage(part(9, plain("SRC/none"), world, NEVER)), v], cfg,
                        {"kind": "fault", "part": 1, "runs": Q(200, 1000), "errnos": errs}, fam="%s:write-side-lookup-fails" % wname))
    return jobs


def check_C13(work):
    return matrix_check(work, "C13", ["StackOK", "TouchMarksFirstOnly", "ROUntouched", "HandleContentOK", "DirValid", "ReplaceOwn"], ("none",), Q(0.35, 1.0), extra_jobs=c13_race_jobs(), conform_extra=True, extra_checks=[(c13_fault_jobs(), ["ExpectVal", "ROUntouched"])],
                        design_cfgs=Q(("MCstack", "MCstack5q"), ("MCstack", "MCstack5", "MCstack6")),
                        replays=(["RPgou", "RPgoum"], ["ReplaceOwn", "ROUntouched", "HandleContentOK", "DirValid"], Q(60, 600)), rule=
                        "the matrix of Stack.tla: write side {none, plain, sharded} x 0-2 read-only levels {plain, sharded} x each level holding {nothing, A, B} x "
                        "{get, touch, ensure, get_or_update x {Accept, Promote, Replace}, set, put, set_temp_file, put_temp_file} x populate {A, B, NotFound, error}; "
                        "result / hit kind shown to the judge / post content of the write cache judged by Stack!ObservedOK (quick: seeded 35%, thorough: all)")


def c14_tail_jobs():
    """Copies that differ from the first one ONLY by a missing tail (one byte, a chunk) or an extra byte: every byte-comparing checker must
    report it, for every operation that compares."""
    jobs = []
    hk = dict(hash="1", sec="2")
    full = dict(key="k", val="A", chunks=2, w=0, mode=0o444, mt_ago=500.0, at_ago=620.0)
    n = 0
    for ck in ("eq", "panic"):
        for chop in (1, 4096, 8191):
            for shape in ("w-full:r-short", "w-short:r-full", "ro3:last-short", "ro2:first-short", "populate-short"):
                world, readers, wcache = [], [], None
                if shape.startswith("w-"):
                    wcache = plain("W", 100)
                    readers = [plain("R1")]
                    world.append(dict(op("mkfile", path="@TOP@/W/k", **full), **({"chop": chop} if shape == "w-short:r-full" else {})))
                    world.append(dict(op("mkfile", path="@TOP@/R1/k", **full), **({"chop": chop} if shape == "w-full:r-short" else {})))
                    prog = [op("get", "k", **hk), dict(op("ensure", "k", **hk), populate="notfound"), dict(op("gou", "k", **hk), judge="accept", populate="notfound")]
                elif shape.startswith("ro"):
                    nlev = 3 if shape.startswith("ro3") else 2
                    readers = [plain("R%d" % (i + 1)) for i in range(nlev)]
                    short = nlev - 1 if shape.endswith("last-short") else 0
                    for i in range(nlev):
                        world.append(dict(op("mkfile", path="@TOP@/R%d/k" % (i + 1), **full), **({"chop": chop} if i == short else {})))
                    prog = [op("get", "k", **hk), dict(op("ensure", "k", **hk), populate="notfound")]
                else:
                    wcache = plain("W", 100)
                    readers = [plain("R1")]
                    world.append(op("mkfile", path="@TOP@/W/k", **full))
                    prog = [dict(op("ensure", "k", "A", chunks=2, w=0, **hk), popchop=chop), dict(op("gou", "k", "A", chunks=2, w=0, **hk), judge="accept", popchop=chop)]
                cache = stack(wcache, readers, ck)
                roots = ([root("W", "plain", "w")] if wcache else []) + [root(r["dir"].replace("@TOP@/", ""), "plain", "ro") for r in readers]
                cfg = {"roots": roots, "front": "stack", "expectfail": True, "checker": ck, "autosync": True, "cap": 100}
                n += 1
                jobs.append(job("C14-tail-%d" % n, [seq_stage(part(9, plain("SRC/none"), world, NEVER)), seq_stage(part(1, cache, prog, NEVER))], cfg, None,
                                fam="tail:%s:chop=%d:ck=%s" % (shape, chop, ck)))
    return jobs


def c14_errkind_jobs():
    """A user-supplied checker may report a mismatch with any kind of io::Error (NotFound, Interrupted, WouldBlock, ...): it is the checker's
    verdict whatever its kind -- in particular it is not populate's "NotFound = skip the comparison" -- and must reach the caller at every
    comparison site."""
    jobs = []
    hk = dict(hash="1", sec="2")
    A = dict(key="k", val="A", chunks=1, w=0, mode=0o444, mt_ago=500.0, at_ago=620.0)
    B = dict(A, val="B")
    n = 0
    for kind in ("notfound", "interrupted", "wouldblock", "alreadyexists", "permissiondenied", "unsupported", "invalidinput", "unexpectedeof", "timedout"):
        for shape in ("w-A:r-B", "ro2:A,B", "r-A:populate-B", "ronly-A:populate-B", "w-A:populate-B"):
            world, readers, wcache = [], [], None
            if shape == "w-A:r-B":
                wcache, readers = plain("W", 100), [plain("R1")]
                world += [op("mkfile", path="@TOP@/W/k", **A), op("mkfile", path="@TOP@/R1/k", **B)]
                prog = [op("get", "k", **hk), dict(op("ensure", "k", **hk), populate="notfound"), dict(op("gou", "k", **hk), judge="accept", populate="notfound"),
                        dict(op("gou", "k", **hk), judge="replace", populate="notfound")]
            elif shape == "ro2:A,B":
                wcache, readers = plain("W", 100), [plain("R1"), plain("R2")]
                world += [op("mkfile", path="@TOP@/R1/k", **A), op("mkfile", path="@TOP@/R2/k", **B)]
                prog = [op("get", "k", **hk), dict(op("ensure", "k", **hk), populate="notfound"), op("touch", "k", **hk)]
            elif shape in ("r-A:populate-B", "ronly-A:populate-B"):
                wcache, readers = (plain("W", 100) if shape.startswith("r-") else None), [plain("R1")]
                world += [op("mkfile", path="@TOP@/R1/k", **A)]
                prog = [op("ensure", "k", "B", chunks=1, w=0, **hk), dict(op("gou", "k", "B", chunks=1, w=0, **hk), judge="accept"),
                        dict(op("gou", "k", "B", chunks=1, w=0, **hk), judge="promote")]
            else:
                wcache, readers = plain("W", 100), [plain("R1")]
                world += [op("mkfile", path="@TOP@/W/k", **A)]
                prog = [op("ensure", "k", "B", chunks=1, w=0, **hk), dict(op("gou", "k", "B", chunks=1, w=0, **hk), judge="accept")]
            prog = [o for o in prog if o["api"] != "touch"]
            cache = stack(wcache, readers, "log:" + kind)
            roots = ([root("W", "plain", "w")] if wcache else []) + [root(r["dir"].replace("@TOP@/", ""), "plain", "ro") for r in readers]
            cfg = {"roots": roots, "front": "stack", "expectfail": True, "checker": "log:" + kind, "autosync": True, "cap": 100}
            n += 1
            jobs.append(job("C14-errkind-%d" % n, [seq_stage(part(9, plain("SRC/none"), world, NEVER)), seq_stage(part(1, cache, prog, NEVER))], cfg, None,
                            fam="errkind:%s:%s" % (shape, kind)))
    return jobs


def check_C14(work):
    return matrix_check(work, "C14", ["StackOK", "NoLaterLookups", "ROUntouched", "DirValid"], extra_checks=[(c14_tail_jobs() + c14_errkind_jobs(), ["ExpectFail", "ROUntouched"])], checkers=("eq", "panic", "log", "none", "cleared", "cleared-panic"), frac=Q(0.10, 1.0),
                        rule="the matrix of Stack.tla with checker {none, byte-equality, panicking, logging}: success iff all copies (and the populated value when "
                        "compared) are identical; the logging checker's comparison graph must span and connect the copies Stack!Expected(..).cmp; "
                        "quick: seeded 12% plus every point whose copies disagree under the equality checkers", always=lambda pt: (pt["checker"] in ("eq", "log") and disagree(pt) and hash(str(pt)) % 3 == 0) or
                        (pt["checker"].startswith("cleared") and disagree(pt) and len([x for x in pt["rs"] if x != "none"]) >= 2 and pt["op"] in ("get", "ensure")))


def c15_fault_jobs():
    """Lookups that reach read-only levels (ReadOnlyCache alone; stacked caches with a plain / sharded writer) while every library call
    fails in turn (stale handle, I/O error, vanished entry): nothing under a read-only root may change then either."""
    jobs = []
    hk = dict(hash="1", sec="2")
    a1, b1 = shard_ids(1, 2, 2)
    plant = lambda root_, kind, key, val: op("mkfile", path="@TOP@/%s/%s" % (root_ if kind == "plain" else shard_dir(root_, b1), key), key=key, val=val,
                                             chunks=1, w=0, mode=0o444, mt_ago=500.0, at_ago=620.0)
    errs = {"open": ["ESTALE", "EIO", "ENOENT"], "stat": ["ESTALE", "EIO"], "utimens": ["ESTALE", "EIO"], "lseek": ["EIO"], "read": ["EIO"],
            "link": ["EIO"], "unlink": ["EIO"], "*": []}
    for rkind in ("plain", "sharded"):
        rspec = plain("R1") if rkind == "plain" else {"kind": "sharded", "dir": "@TOP@/R1", "shards": 2}
        world = [plant("R1", rkind, "kr", "ro"), plant("R2", "plain", "kr", "ro"), plant("R2", "plain", "k2", "ro2")]
        if rkind == "sharded":
            world.append(op("mkdir", path="@TOP@/" + shard_dir("R1", a1)))
        fronts_ = [("ro", ro([rspec, plain("R2")], "none"), ["get", "touch"]),
                   ("stack", stack(plain("W", 100), [rspec, plain("R2")], "none"), ["get", "touch", "ensure", "gou"]),
                   ("stacksh", stack(sharded("W", 2, 100), [rspec], "none"), ["get", "touch", "ensure"])]
        for fname, cache, apis in fronts_:
            prog = []
            for api in apis:
                for key in ("kr", "k2", "absent"):
                    o = op(api, key, **hk)
                    if api == "gou":
                        o["judge"] = "promote"
                    prog.append(o)
            v = seq_stage(part(1, cache, with_vals(prog, 1), NEVER))
            v["victim"] = True
            cfg = {"roots": roots_of(cache), "front": cache["kind"]}
            j = job("C15-fault-%s-%s" % (fname, rkind), [seq_stage(part(9, plain("SRC/none"), world, NEVER)), v], cfg,
                    {"kind": "fault", "part": 1, "runs": Q(160, 2000), "errnos": errs}, fam="%s:%s:failing-calls" % (fname, rkind))
            jobs.append(j)
    return jobs


def c15_big_jobs():
    """Promotion of LARGE read-only hits (a copy, never a link that would share the inode with the write cache): the read-only copy keeps its
    stamps, mode and link count while the promoted entry is stamped, re-moded and later re-stamped by maintenance."""
    jobs = []
    hk = dict(hash="1", sec="2")
    for wname, wr in (("stack", plain("W", 2)), ("stacksh", sharded("W", 2, 4))):
        for rkind in ("plain", "sharded"):
            rspec = plain("R1") if rkind == "plain" else {"kind": "sharded", "dir": "@TOP@/R1", "shards": 2}
            d = "R1" if rkind == "plain" else shard_dir("R1", shard_ids(1, 2, 2)[0])
            world = [op("mkfile", path="@TOP@/%s/kr" % d, key="kr", val="big", chunks=1, w=0, mode=0o444, mt_ago=600.0, at_ago=720.0),
                     op("mkfile", path="@TOP@/%s/k2" % d, key="k2", val="big2", chunks=2, w=0, mode=0o644, mt_ago=600.0, at_ago=720.0)]
            prog = [op("ensure", "kr", **hk), dict(op("gou", "k2", **hk), judge="promote"), op("get", "kr", **hk),
                    op("set", "x1", "v", srcdir="@TOP@/SRC", **hk), op("put", "x2", "v", srcdir="@TOP@/SRC", **hk), op("set", "x3", "v", srcdir="@TOP@/SRC", **hk),
                    op("touch", "kr", **hk), op("get", "k2", **hk)]
            cache = stack(wr, [rspec], "none")
            j = seq_job("C15-big-%s-%s" % (wname, rkind), "%s:%s:large-hit-promotion" % (wname, rkind), cache, prog, world=world, draw=ALWAYS,
                        shard_script=[1, 0] * 10)
            j["chunk"] = 140000
            jobs.append(j)
    return jobs


def c15_mode_jobs():
    """Entries of read-only levels whose permission bits are not what kismet itself would have published (group / other write bits, private
    files): lookups must leave the mode alone too."""
    jobs = []
    hk = dict(hash="1", sec="2")
    modes = [0o664, 0o666, 0o646, 0o644, 0o600, 0o640, 0o444, 0o464]
    for wname, wr in (("ro-only", None), ("stack", plain("W", 100)), ("stacksh", sharded("W", 2, 100))):
        for rkind in ("plain", "sharded"):
            rspec = plain("R1") if rkind == "plain" else {"kind": "sharded", "dir": "@TOP@/R1", "shards": 2}
            d = "R1" if rkind == "plain" else shard_dir("R1", shard_ids(1, 2, 2)[0])
            world = [op("mkfile", path="@TOP@/%s/m%o" % (d, m), key="m%o" % m, val="v%o" % m, chunks=1, w=0, mode=m, mt_ago=600.0, at_ago=720.0) for m in modes]
            prog = []
            for i, m in enumerate(modes):
                k = "m%o" % m
                prog += [op("get", k, **hk), op("touch", k, **hk)]
                if wr is not None:
                    prog += [op("ensure", k, **hk) if i % 2 else dict(op("gou", k, **hk), judge=("accept", "promote", "replace")[i % 3]), op("get", k, **hk)]
            cache = stack(wr, [rspec], "none")
            jobs.append(seq_job("C15-mode-%s-%s" % (wname, rkind), "%s:%s:entry-modes" % (wname, rkind), cache, prog, world=world, draw=NEVER, shard_script=[1, 0] * 10))
    return jobs


def check_C15(work):
    return matrix_check(work, "C15", ["ROUntouched", "StackOK"], ("none", "eq"), Q(0.15, 0.6), extra_jobs=c15_fault_jobs() + c15_big_jobs() + c15_mode_jobs(), rule=
                        "the matrix of Stack.tla (incl. missing read-only directories, promotion, replacement, misses) and ReadOnlyCache alone: no mutating call "
                        "may target a read-only root and snapshots of those roots are equal up to atime after every step (ROUntouched)")


def c19_extra_jobs():
    """Path-based set/put whose source file carries group/other write bits, under several umasks."""
    jobs = []
    n = 0
    for fname, cache in (("plain", plain("W")), ("sharded", sharded("W", 2)), ("stack", stack(plain("W"), [], "none"))):
        for umask in (0o000, 0o002, 0o022):
            for srcmode in (0o666, 0o664, 0o644, 0o600):
                prog = [op("set", "ks", hash="1", sec="2", srcmode=srcmode), op("put", "kp", hash="3", sec="4", srcmode=srcmode),
                        op("get", "ks", hash="1", sec="2")]
                n += 1
                jobs.append(seq_job("C19-src-%d" % n, "%s:srcmode=%o:umask=%o" % (fname, srcmode, umask), cache, prog, umask=umask))
    # temp-file variants and populate callbacks whose file was chmod'ed by the application (read-only already, odd modes): 0444 all the same
    for wname, wr in (("stack", plain("W")), ("stacksh", sharded("W", 2))):
        for umask in (0o000, 0o022, 0o077):
            for srcmode in (0o400, 0o440, 0o500, 0o640, 0o666):
                prog = [op("set_tf", "ks", hash="1", sec="2", srcmode=srcmode), op("put_tf", "kp", hash="3", sec="4", srcmode=srcmode),
                        op("set_tf", "ks", hash="1", sec="2", srcmode=srcmode), op("ensure", "ke", hash="1", sec="2", popmode=srcmode),
                        op("get", "ks", hash="1", sec="2"), op("get", "ke", hash="1", sec="2")]
                n += 1
                jobs.append(seq_job("C19-src-%d" % n, "%s:tempfile-mode=%o:umask=%o" % (wname, srcmode, umask), stack(wr, [], "none"), prog, umask=umask))
    return jobs


def c19_fault_jobs():
    """Lookups and promotions with every library call failing in turn: a handle that IS returned is read-only and at offset 0 on the
    error paths too (a promotion that fails after it consumed the hit must not hand the hit back at end-of-file)."""
    jobs = []
    hk = dict(hash="1", sec="2")
    a1, b1 = shard_ids(1, 2, 2)
    errs = {"open": ["EIO", "EMFILE"], "stat": ["EIO"], "utimens": ["EIO"], "lseek": ["EIO"], "read": ["EIO"], "copy": ["EIO", "ENOSPC"],
            "write": ["ENOSPC"], "fsync": ["EIO"], "chmod": ["EIO"], "link": ["EIO", "EXDEV", "EMLINK"], "rename": ["EIO"], "unlink": ["EIO", "EACCES", "EPERM"],
            "mkdir": ["EACCES"], "*": []}
    for wname, wr in (("stack", plain("W", 100)), ("stacksh", sharded("W", 2, 100))):
        cache = stack(wr, [plain("R1")], "none")
        world = [op("mkfile", path="@TOP@/R1/kr", key="kr", val="ro", chunks=2, w=0, mode=0o444, mt_ago=500.0, at_ago=620.0),
                 op("mkfile", path="@TOP@/R1/k2", key="k2", val="ro2", chunks=1, w=0, mode=0o444, mt_ago=500.0, at_ago=620.0)]
        prog = [op("ensure", "kr", **hk), dict(op("gou", "k2", **hk), judge="promote"), op("get", "kr", **hk), dict(op("gou", "kr", **hk), judge="replace"),
                op("ensure", "fresh", **hk)]
        v = seq_stage(part(1, cache, with_vals(prog, 1), NEVER))
        v["victim"] = True
        cfg = {"roots": roots_of(cache), "front": "stack", "autosync": True}
        jobs.append(job("C19-fault-%s" % wname, [seq_stage(part(9, plain("SRC/none"), world, NEVER)), v], cfg,
                        {"kind": "fault", "part": 1, "runs": Q(260, 2000), "errnos": errs}, fam="%s:failing-calls" % wname))
    return jobs


def check_C19(work):
    return matrix_check(work, "C19", extra_jobs=c19_extra_jobs() + c19_fault_jobs(), **dict(mons=["HandleModeOK", "HandleContentOK", "Mode0444", "ReadOnlyFirst", "DirValid", "StackOK", "Immutable"], checkers=("none", "eq", "log"), frac=Q(0.12, 0.6),
                        rule="the matrix of Stack.tla x umask {000, 022, 077}: access mode and offset of every returned handle (fcntl(F_GETFL), lseek(SEEK_CUR) before "
                        "reading; judge and checkers consume the files), mode of every published file; plus path-based set/put of sources with mode 0666/0664/0644/0600 under umask 000/002/022", umasks=(0o000, 0o022, 0o077)))


def check_C19_old(work):
    return matrix_check(work, "C19", ["HandleModeOK", "HandleContentOK", "Mode0444", "ReadOnlyFirst", "DirValid", "StackOK"], ("none", "eq", "log"), Q(0.12, 0.6),
                        "the matrix of Stack.tla x umask {000, 022, 077}: access mode and offset of every returned handle (fcntl(F_GETFL), lseek(SEEK_CUR) before "
                        "reading; judge and checkers consume the files), mode of every published file", umasks=(0o000, 0o022, 0o077))


# ---------------------------------------------------------------------------
# pure functions: cases -> kv-actor --pure -> TLC

def run_pure(work, cases, tag):
    """Runs kv-actor --pure over the cases (sharded over processes); returns the list of output files."""
    n = max(1, min(12, len(cases) // 2000 + 1))
    files = []
    procs = []
    for w in range(n):
        cf = work.path("%s-cases-%d.ndjson" % (tag, w))
        of = work.path("%s-out-%d.ndjson" % (tag, w))
        with open(cf, "w") as f:
            for c in cases[w::n]:
                f.write(json.dumps(c) + "\n")
        procs.append((subprocess.Popen([ACTOR, "--pure", cf, of]), of))
    for p, of in procs:
        if p.wait() != 0:
            raise ToolError("kv-actor --pure failed")
        files.append(of)
    return files


def check_C08(work):
    t0 = time.time()
    out = Outcome("C08")
    rng = random.Random(seed())
    cases = []
    nmax = Q(4, 6)
    cid = 0
    for n in range(0, nmax + 1):
        for combo in itertools.product(itertools.product(range(4), (0, 1)), repeat=n):
            cid += 1
            cases.append({"fn": "plan", "id": cid, "ents": [list(x) for x in combo], "caps": list(range(0, n + 2)) + ["max"]})
    exhaustive_n = nmax
    # sampled n = nmax+1 .. 7 over the same rank domain
    for n in range(nmax + 1, 8):
        for _ in range(Q(1500, 20000)):
            cid += 1
            cases.append({"fn": "plan", "id": cid, "ents": [[rng.randint(0, 3), rng.randint(0, 1)] for _ in range(n)],
                          "caps": list(range(0, n + 2))})
    # large inputs, full-width ranks, extreme capacities
    big = []
    for _ in range(Q(40, 200)):
        n = rng.choice([10, 50, 100, 300] + ([1000, 2000] if TIER == "thorough" else []))
        style = rng.choice(["wide", "ties", "few"])
        if style == "wide":
            ranks = [rng.getrandbits(64) for _ in range(n)]
        elif style == "ties":
            ranks = [rng.choice([0, 1, U64MAX, U64MAX - 1, 1 << 63]) for _ in range(n)]
        else:
            ranks = [rng.randint(0, 5) for _ in range(n)]
        cid += 1
        big.append({"fn": "plan", "id": cid, "ents": [[str(r), rng.randint(0, 1)] for r in ranks],
                    "caps": [0, max(0, n - 1), n, "max", rng.randint(0, n)]})
    files = run_pure(work, cases + big, "c08")
    # order-preserving compression of full-width ranks (exact: the planner is generic in Rank: Ord and can only compare)
    largest = 0
    for f in files:
        lines = []
        for line in open(f):
            r = json.loads(line)
            vals = sorted(set(int(e[0]) for e in r["ents"]))
            idx = {v: i for i, v in enumerate(vals)}
            r["ents"] = [[idx[int(e[0])], 1 if e[1] in (1, True) else 0] for e in r["ents"]]
            largest = max(largest, len(r["ents"]))
            for o in r["outs"]:
                if o["cap"] == "max":
                    o["cap"] = -1
            lines.append(json.dumps(r))
        with open(f, "w") as g:
            g.write("\n".join(lines) + "\n")
    res = validate_traces(work, "TraceSC", files, {"monitors": []}, tag="c08")
    judged = 0
    nviol = 0
    for r in res:
        judged += (r.get("mstats") or {}).get("judged", 0)
        for v in r["verdicts"]:
            nviol += 1
            case = next((c for c in cases + big if c["id"] == v["run"]), None)
            out.report("PlanOK@n=%d" % (len(case["ents"]) if case else -1), dict(property="C08", case=case, failing_caps=v["viol"]))
    design = design_runs(work, out, Q(["MCsc4", "MCscExact3"], ["MCsc4", "MCsc5", "MCscExact3", "MCscExact"]))
    cov = dict(states=max(1, sum(d["states"] for d in design) + sum(r["states"] for r in res)),
               transitions=max(1, sum(d["transitions"] for d in design) + judged),
               traces_validated_against_impl=len(cases) + len(big),
               samples=[cases[min(len(cases) - 1, 300)], big[0]],
               rule="all sequences of <= %d entries over ranks 0..3 x flag x capacities 0..n+1 and usize::MAX (exhaustive), sampled n up to 7, seeded large inputs "
                    "(n <= %d, full-width u64 ranks incl. extreme ties, capacities 0, n-1, n, usize::MAX) fed to the real second_chance::Update::new; every outcome "
                    "judged by SecondChance!PlanOK (equal to the classical clock under SOME ordering of ties; exactness of PlanOK itself proved by MCscExact)" % (exhaustive_n, largest),
               judgements=judged, largest_n_judged=largest, exhaustive=True,
               design_level=[dict(cfg=d["cfg"], states=d["states"], transitions=d["transitions"], ok=d["ok"], wall_s=round(d["wall"], 1)) for d in design])
    return finish("C08", out, t0, "model_checking", cov, ["TLC 1.8.0", "ranks are compressed order-preservingly before TLC sees them (the planner can only compare ranks)"])


def trigger_scripts(P, rng):
    """Adversarial draw scripts for period P (Python integers are only used to *generate* inputs)."""
    Pe = max(1, P)
    sc = (U64MAX // Pe) + (1 if U64MAX % Pe else 0)
    n = 3 * Pe + 5
    out = {}
    out["max"] = dict(draws=[], draw_default=str(U64MAX))
    out["ones"] = dict(draws=[], draw_default="1")
    out["mult"] = dict(draws=[str(min(U64MAX, max(1, ((i % Pe) + 1) * sc))) for i in range(n)], draw_default=str(U64MAX))
    out["mult+1"] = dict(draws=[str(min(U64MAX, ((i % Pe) + 1) * sc + 1)) for i in range(n)], draw_default=str(U64MAX))
    out["mult-1"] = dict(draws=[str(max(1, min(U64MAX, ((i % Pe) + 1) * sc - 1))) for i in range(n)], draw_default=str(U64MAX))
    out["zero"] = dict(draws=["0", "0", str(U64MAX), "0", "1"], draw_default=str(U64MAX - 1))
    out["rand"] = dict(draws=[str(rng.getrandbits(64) | 1) for _ in range(n)], draw_default=str(U64MAX))
    return out, n


def check_C10(work):
    t0 = time.time()
    out = Outcome("C10")
    rng = random.Random(seed())
    caps = list(range(0, Q(40, 201))) + Q([60, 61, 99, 100, 101, 150, 199, 200], [])
    huge = [1 << 31, 1 << 63, (1 << 64) - 2, (1 << 64) - 1]
    # (a) the trigger alone
    cases = []
    cid = 0
    for k in caps + huge:
        P = k // 3
        scripts, n = trigger_scripts(P if P < (1 << 20) else 3, rng)
        for name, sc in scripts.items():
            cid += 1
            c = {"fn": "trigger", "id": cid, "period": str(P), "draws": sc["draws"], "draw_default": sc["draw_default"],
                 "events": n if P < (1 << 20) else 12, "script": name, "cap": str(k)}
            cases.append(c)
    files = run_pure(work, cases, "c10p")
    byid = {c["id"]: c for c in cases}
    for f in files:
        lines = []
        for line in open(f):
            r = json.loads(line)
            c = byid[r["id"]]
            P = int(c["period"])
            rec = {"fn": "trigger", "id": r["id"], "panic": r["panic"], "fires": r["fires"]}
            if P < (1 << 20):
                rec["small"] = True
                rec["p"] = P
                if P <= 1:
                    rec["expect"] = [1] * len(r["fires"])
            if c["script"] == "ones":
                rec["allones"] = True
            lines.append(json.dumps(rec))
        with open(f, "w") as g:
            g.write("\n".join(lines) + "\n")
    res = validate_traces(work, "TraceTrigger", files, {"monitors": []}, tag="c10p")
    for r in res:
        for v in r["verdicts"]:
            if v.get("viol"):
                c = byid.get(v["run"], {})
                out.report("TriggerWindow@period=%s:%s" % (c.get("period"), c.get("script")), dict(property="C10", case=c))
    # (b) one thread writing to one plain cache
    jobs = []
    dcaps = Q([0, 1, 2, 3, 4, 5, 6, 7, 8, 9, 11, 12, 14, 15, 21, 30, 31, 32, 33, 60, 100], list(range(0, 201, 1)))
    for k in dcaps + huge:
        P = max(1, k // 3) if k < (1 << 20) else 4
        scripts, n = trigger_scripts(k // 3 if k < (1 << 20) else 3, rng)
        for name in Q(("max", "mult", "mult+1", "ones"), ("max", "mult", "mult+1", "mult-1", "ones", "zero", "rand")):
            sc = scripts[name]
            nw = 3 * P + 5 if k < (1 << 20) else 8
            capv = k if k < (1 << 31) else str(k)
            # every write is an event of the trigger, whatever it finds: fresh keys, overwritten keys, puts onto keys that are present
            for pat in ("mixed", "pairs", "reput"):
                if pat != "mixed" and not (k in (0, 1, 2, 3, 6, 9, 12, 30, 31) or TIER == "thorough"):
                    continue
                prog = []
                for i in range(nw):
                    if pat == "mixed":
                        key, api = "k%d" % (i if i % 4 else i // 4), ("set" if i % 2 == 0 else "put")      # fresh and repeated keys
                    elif pat == "pairs":
                        key, api = "k%d" % (i // 2), ("set" if i % 2 == 0 else "put")                      # every put finds its key present
                    else:
                        key, api = "k0", ("set" if i == 0 else "put")                                       # one key, put again and again
                    prog.append(op(api, key, "v%d" % i))
                j = seq_job("C10-%s-%s-%s" % (k, name, pat), "cap=%s:%s%s" % (k, name, "" if pat == "mixed" else ":" + pat), plain("W", capv), prog,
                            draw=sc["draw_default"], draws=sc["draws"], cfg_extra={"cap": k if k < (1 << 20) else 1000000})
                j["snap"] = "ret"
                jobs.append(j)
    # a temp directory that cannot be listed (it is a regular file) makes the sweep fail -- AFTER the maintenance of the cache directory,
    # which therefore still happens once per period (values staged outside the cache, through the stacked front end)
    for k in (6, 9, 12, 30):
        P = max(1, k // 3)
        scripts, n = trigger_scripts(k // 3, rng)
        for name in ("max", "mult", "mult+1"):
            sc = scripts[name]
            prog = [op("set" if i % 2 == 0 else "put", "k%d" % i, "v%d" % i) for i in range(3 * P + 5)]
            world = [op("mkdir", path="@TOP@/W"), op("mkfile", path="@TOP@/W/.kismet_temp", raw="not a directory")]
            j = seq_job("C10-%s-%s-badtemp" % (k, name), "cap=%s:%s:unlistable-temp" % (k, name), stack(plain("W", k), [], "none"), prog, world=world,
                        draw=sc["draw_default"], draws=sc["draws"], cfg_extra={"cap": k, "maywritefail": True})
            j["snap"] = "ret"
            jobs.append(j)
    tfiles = run_tracer(work, jobs, tag="c10")
    res2 = validate_traces(work, "TraceTrigger", tfiles, {"monitors": []}, tag="c10")
    writes = maint = 0
    byjob = {j["id"]: j for j in jobs}
    for r in res2:
        for v in r["verdicts"]:
            writes += v.get("ops", 0)
            maint += v.get("maint", 0)
            if v.get("viol"):
                mons = sorted(set(m for _, m in v["viol"]))
                out.report("%s@%s" % (mons[0], byjob.get(v["job"], {}).get("fam")), dict(property="C10", job=byjob.get(v["job"]), viol=v["viol"]))
    design = design_runs(work, out, Q(["MCtriggerq"], ["MCtriggerq", "MCtrigger"]))
    nruns, nev = count_runs(tfiles)
    cov = dict(states=sum(d["states"] for d in design) + sum(r["states"] for r in res) + sum(r["states"] for r in res2),
               transitions=sum(d["transitions"] for d in design) + nev,
               traces_validated_against_impl=len(cases) + nruns,
               samples=[{k: v for k, v in cases[9].items() if k != "draws"}, dict(job=jobs[3]["id"], cfg=jobs[3]["cfg"], writes=len(jobs[3]["stages"][-1]["parts"][0]["prog"]))],
               rule="(a) the real PeriodicTrigger (hook: scripted draws) for period = k div 3, k in %d capacities and 4 huge ones, under draw scripts "
                    "{u64::MAX, j*scale, j*scale+1, j*scale-1, all 1, zero-then-x, seeded}: no window of max(1,period) events without a fire; (b) one thread writing "
                    "3P+5 times (set/put, fresh and repeated keys) to a plain cache of capacity k: MaintWindow, MaintBeforePublish, CountBound (<= k + P files at "
                    "every return) judged by TraceTrigger.tla; design level: Trigger.tla, every period and every draw sequence for a %d-bit word" % (len(caps), Q(5, 6)),
               trigger_cases=len(cases), disk_runs=nruns, writes_judged=writes, maintenances_seen=maint,
               design_level=[dict(cfg=d["cfg"], states=d["states"], transitions=d["transitions"], ok=d["ok"], wall_s=round(d["wall"], 1)) for d in design])
    return finish("C10", out, t0, "model_checking", cov, BASE_ASSUME + ["the scripted-draw hook (cfg kismet_verif) replaces only the random source"])


def c12_vectors(rng, thorough):
    M = (1 << 64) - 1
    inv_pm = pow(PM, -1, 1 << 64)
    inv_sm = pow(SM, -1, 1 << 64)
    ns = list(range(0, 71)) + [128, 255, 256, 257, 4096, 65537]
    if not thorough:
        ns = [0, 1, 2, 3, 4, 5, 7, 8, 15, 16, 17, 31, 33, 64, 70, 255, 256, 257, 4096, 65537]
    base = [0, 1, 1 << 63, M, 2, M - 1]
    vecs = []
    for n in ns:
        n2 = max(2, n)
        hs = list(base)
        # hashes whose mixed value lands exactly on / next to a shard boundary: mix(h) = ceil(j * 2^64 / n2) (+-1)
        bnd = []
        for j in sorted(set([1, n2 - 1] + ([n2 // 2] if thorough else []))):
            b = -((-j << 64) // n2)
            for d in (-1, 0, 1):
                target = (b + d) & M
                bnd.append(((target - PA) * inv_pm) & M)
        hs = (hs if thorough else hs[:4]) + bnd
        pairs = []
        for h in hs:
            pairs.append((h, rng.getrandbits(64)))
        # the last shard as the secondary candidate (largest index: directory naming beyond four hex digits)
        lo_last = -((-(n2 - 1) << 64) // n2)
        pairs.append((rng.getrandbits(64), ((lo_last + 12345 - SA) * inv_sm) & M))
        # equal primary / secondary image (the fix-up branch), including the wrap-around at the last shard
        for want in (0, n2 - 1, rng.randrange(n2)):
            for _ in range(200):
                h, s2 = rng.getrandbits(64), rng.getrandbits(64)
                a = (n2 * ((h * PM + PA) & M)) >> 64
                b = (n2 * ((s2 * SM + SA) & M)) >> 64
                if a == want:
                    # choose s with the same image: solve for a mixed value inside shard `want`
                    lo = -((-want << 64) // n2)
                    s2 = ((lo + rng.randrange(1, 1000) - SA) * inv_sm) & M
                    if (n2 * ((s2 * SM + SA) & M)) >> 64 == want:
                        pairs.append((h, s2))
                        break
        for _ in range(4 if not thorough else 12):
            pairs.append((rng.getrandbits(64), rng.getrandbits(64)))
        for (h, s2) in pairs:
            vecs.append((h, s2, n))
    return vecs


def check_C12(work):
    t0 = time.time()
    out = Outcome("C12")
    if subprocess.run([sys.executable, os.path.join(VERIF, "driver", "shardconst.py")], stdout=subprocess.DEVNULL).returncode != 0:
        raise ToolError("ShardMap.tla's constants disagree with SHA-256 of the mixer strings")
    rng = random.Random(seed())
    vecs = c12_vectors(rng, TIER == "thorough")
    byn = {}
    for v in vecs:
        byn.setdefault(v[2], []).append(v)
    jobs = []
    per = 12
    jid = 0
    for n, vs in sorted(byn.items()):
        for i in range(0, len(vs), per):
            grp = vs[i:i + per]
            root_ = "W%d" % n
            # the mapping depends on (hash, secondary hash, shard count) only: also with a total capacity below the shard count
            capn = [1000000, 1, max(1, n - 1), max(1, n // 2), 2][(i // per) % 5]
            cache = sharded(root_, n, capn)
            prog = []
            for k, (h, s2, _) in enumerate(grp):
                key = "key%d" % (i + k)
                extra = dict(hash=str(h), sec=str(s2), hl=list(h.to_bytes(8, "little")), sl=list(s2.to_bytes(8, "little")), n=n, root=root_)
                prog.append(dict(op("get", key), cache=cache, expect="miss", **extra))
                prog.append(dict(op("put", key, "v"), cache=cache, expect="stored", **extra))
                prog.append(dict(op("get", key), cache=cache, expect="hit", **extra))      # a fresh handle (all estimates zero)
                prog.append(dict(op("get", key), h=0, expect="hit", **extra))               # a long-lived handle whose estimates have diverged
                prog.append(dict(op("put", "other%d" % (i + k), "w", hash=str(rng.getrandbits(64)), sec=str(rng.getrandbits(64))), h=0))
            jid += 1
            j = seq_job("C12-%d-%d" % (n, i), "n=%d%s" % (n, "" if capn == 1000000 else ":capacity<shards" if capn < n else ":small-capacity"), cache, prog,
                        roots=[root(root_, "sharded", "w")])
            j["snap"] = "none"
            jobs.append(j)
    # a long-lived handle whose load estimates of BOTH candidate shards exceed the shard capacity (full shards, rewritten again and again) still
    # probes both candidates: the entry lives in its secondary shard (planted there), nothing is ever evicted (the shards are exactly full)
    for n in (2, 3, 7):
        pick, byprimary = {}, {}
        for h in range(1, 4000):
            ids = shard_ids(h, h + 1, n)
            pick.setdefault(ids, (h, h + 1))
            byprimary.setdefault(ids[0], []).append((h, h + 1))
        (a0, b0), (vh, vs) = next(((ids, hs) for ids, hs in pick.items() if ids[0] != ids[1]))
        root_ = "L%d" % n
        cap_shard = 4
        cache = sharded(root_, n, cap_shard * n)
        mk = lambda h_, s_: dict(hash=str(h_), sec=str(s_), hl=list(h_.to_bytes(8, "little")), sl=list(s_.to_bytes(8, "little")), n=n, root=root_)
        # keys whose primary shard is a0 / b0 (any secondary)
        in_a = byprimary.get(a0, [])[:cap_shard]
        in_b = byprimary.get(b0, [])[:cap_shard - 1]
        if len(in_a) < cap_shard or len(in_b) < cap_shard - 1:
            continue
        world = [op("mkdir", path="@TOP@/%s" % shard_dir(root_, i)) for i in range(n)]
        world.append(op("mkfile", path="@TOP@/%s/victim" % shard_dir(root_, b0), key="victim", val="v", chunks=1, w=0, mode=0o444, mt_ago=100.0, at_ago=90.0))
        prog = []
        for i, (h_, s_) in enumerate(in_a):
            prog.append(dict(op("set", "a%d" % i, "x"), h=0, **mk(h_, s_)))
        for i, (h_, s_) in enumerate(in_b):
            prog.append(dict(op("set", "b%d" % i, "x"), h=0, **mk(h_, s_)))
        for r in range(Q(8, 40)):
            prog.append(dict(op("set", "a0", "x%d" % r), h=0, **mk(*in_a[0])))
            prog.append(dict(op("set", "b0", "y%d" % r), h=0, **mk(*in_b[0])))
            prog.append(dict(op("get", "victim"), h=0, expect="hit", **mk(vh, vs)))
            prog.append(dict(op("touch", "victim"), h=0, expect="hit", **mk(vh, vs)))
        j = seq_job("C12-longlived-%d" % n, "n=%d:long-lived-handle" % n, cache, prog, world=world, roots=[root(root_, "sharded", "w")],
                    draw=str(rng.getrandbits(64) | 1), shard_script=[rng.randrange(n) for _ in range(64)])
        j["snap"] = "none"
        jobs.append(j)
    tfiles = run_tracer(work, jobs, tag="c12")
    res = validate_traces(work, "TraceShard", tfiles, {"monitors": []}, tag="c12")
    judged = 0
    byjob = {j["id"]: j for j in jobs}
    for r in res:
        for v in r["verdicts"]:
            judged += v.get("ops", 0)
            if v.get("viol"):
                mons = sorted(set(m for _, m in v["viol"]))
                out.report("%s@%s" % (mons[0], byjob.get(v["job"], {}).get("fam")), dict(property="C12", job=byjob.get(v["job"]), viol=v["viol"]))
    design = design_runs(work, out, ["MCshardmap"])
    nruns, nev = count_runs(tfiles)
    cov = dict(states=sum(d["states"] for d in design) + sum(r["states"] for r in res), transitions=sum(d["transitions"] for d in design) + nev,
               traces_validated_against_impl=nruns,
               samples=[dict(hash=str(vecs[i][0]), sec=str(vecs[i][1]), n=vecs[i][2]) for i in (0, len(vecs) // 2, len(vecs) - 1)],
               rule="hash pairs {0, 1, 2^63, 2^64-1, values whose mixed image is on / next to a shard boundary, pairs with equal primary and secondary image "
                    "(incl. wrap-around), seeded random} x shard counts; per vector: probe order of a lookup on an empty directory, landing shard of a put by a fresh "
                    "handle, read-back by a fresh handle and by a handle with diverged load estimates; judged by ShardMap!Ids / DirName (limb arithmetic in TLC)",
               vectors=len(vecs), operations_judged=judged, exhaustive=True,
               design_level=[dict(cfg=d["cfg"], states=d["states"], transitions=d["transitions"], ok=d["ok"], wall_s=round(d["wall"], 1)) for d in design])
    return finish("C12", out, t0, "model_checking", cov, BASE_ASSUME + ["SHA-256 -> constants derivation is checked with Python hashlib, not in TLA+"])


def check_C04(work):
    t0 = time.time()
    out = Outcome("C04")
    k = "k"
    jobs = []
    plainf = ("plain", plain("W", 10000000), [root("W", "plain", "w")], None)
    stackf = ("stack", stack(plain("W", 10000000), [], "none"), [root("W", "plain", "w")], None)
    ops2 = {"S": S(k), "P": P(k), "G": G(k), "T": T(k)}
    progs2 = []
    # all pairs of 1-2 operation programs with at least one writer (quick: a seeded selection)
    singles = [[o] for o in "SPGT"] + [[a, b] for a in "SPGT" for b in "SPGT"]
    for a in singles:
        for b in singles:
            if not any(x in "SP" for x in a + b) or not any(x in "GT" for x in a + b):
                continue
            if len(a) + len(b) > Q(3, 4):
                continue
            progs2.append((a, b))
    rng = random.Random(seed())
    if TIER == "quick":
        rng.shuffle(progs2)
        progs2 = progs2[:22]
    # histories in which a lost update / overwrite by put is observable need an observer after both writers
    progs2 += [(["P"], ["P", "G", "G"]), (["P", "G"], ["P", "G"]), (["S"], ["P", "G", "G"]), (["P", "G"], ["S", "G"])]
    n = Q(70, 400)
    for i, (a, b) in enumerate(progs2):
        for pre in ((), ((k, "old"),)):
            if pre and i % 2:
                continue
            progs = ([dict(ops2[x]) for x in a], [dict(ops2[x]) for x in b])
            fam = "plain:%s||%s%s" % ("".join(a), "".join(b), ":pre" if pre else "")
            jobs.append(conc_job("C04-%d-%s" % (i, "pre" if pre else "e"), fam, plainf, progs, dfs(n, Q(3, None)), prefill=pre, cfg_extra={"key": k}))
    # three participants, one operation each
    for i, tri in enumerate([("S", "P", "G"), ("P", "P", "G"), ("S", "S", "G"), ("P", "T", "G"), ("S", "P", "T")]):
        progs = tuple([dict(ops2[x])] for x in tri)
        jobs.append(conc_job("C04-3p-%d" % i, "plain:3p:%s" % "".join(tri), plainf, progs, rnd(Q(80, 1500), seed() + i), cfg_extra={"key": k}))
    # ensure (stacked cache with a plain writer and no read-only level)
    for i, (a, b) in enumerate([([E(k)], [E(k)]), ([E(k)], [S(k), G(k)]), ([E(k)], [P(k), G(k)]), ([E(k), G(k)], [E(k)]), ([E(k)], [G(k), T(k)])]):
        jobs.append(conc_job("C04-ens-%d" % i, "stack:%s||%s" % (prog_name(a), prog_name(b)), stackf, (a, b), dfs(Q(120, 1200), Q(3, None)), cfg_extra={"key": k}))
        jobs.append(conc_job("C04-ens-%d-b" % i, "stack:%s||%s" % (prog_name(a), prog_name(b)), stackf, (a, b), bursts(Q(120, 400)), cfg_extra={"key": k}))
    jobs.append(conc_job("C04-ens-3p", "stack:3p:ensure", stackf, ([E(k)], [E(k)], [E(k)]), rnd(Q(100, 1500), seed() + 77), cfg_extra={"key": k}))
    # one failing call inside a writer (its rename / link / re-stamp ...) while readers look the key up: whatever the failed or retried
    # operation does, no lookup ever sees the key absent or an older value than a completed set's
    k_ = 0
    for api, calls in (("S", ["rename", "utimens", "chmod", "open", "stat"]), ("P", ["link", "utimens", "chmod", "open", "stat", "unlink"])):
        for call in calls:
            for er in (["EIO", "ENOENT"] if call in ("rename", "link") else ["EIO"]):
                for rd in (["G", "G"], ["T", "G"]):
                    progs = ([dict(ops2[api])], [dict(ops2[x]) for x in rd])
                    fam = "plain:%s(%s:%s)||%s:pre" % (api, call, er, "".join(rd))
                    cj = conc_job("C04-flt-%d" % k_, fam, plainf, progs, bursts(Q(40, 200)), prefill=((k, "old"),), cfg_extra={"key": k})
                    cj["stages"][-1]["parts"][0]["fault_all"] = {"call": call, "errno": er, "count": 1}
                    jobs.append(cj)
                    k_ += 1
    # ... and while ANOTHER WRITER publishes the same (absent) key: a put whose link fails (no hard links here, ...) may fail or insert,
    # but never overwrites what a put that already returned has stored
    for call, er in (("link", "EPERM"), ("link", "EOPNOTSUPP"), ("link", "ENOSYS"), ("link", "EXDEV"), ("link", "EIO")):
        for a_, b_ in ((["P"], ["P", "G", "G"]), (["P", "G"], ["P", "G"]), (["P"], ["S", "G", "G"])):
            progs = ([dict(ops2[x]) for x in a_], [dict(ops2[x]) for x in b_])
            fam = "plain:%s(%s:%s)||%s" % ("".join(a_), call, er, "".join(b_))
            cj = conc_job("C04-flt-%d" % k_, fam, plainf, progs, bursts(Q(50, 200)), cfg_extra={"key": k})
            cj["stages"][-1]["parts"][0]["fault_all"] = {"call": call, "errno": er, "count": 1}
            jobs.append(cj)
            k_ += 1
    for i_, (a_, b_) in enumerate([([E(k)], [E(k), G(k)]), ([E(k)], [P(k), G(k)])]):
        for er in ("EPERM", "EIO"):
            cj = conc_job("C04-flt-ens-%d-%s" % (i_, er), "stack:%s(link:%s)||%s" % (prog_name(a_), er, prog_name(b_)), stackf, (a_, b_), bursts(Q(60, 200)), cfg_extra={"key": k})
            cj["stages"][-1]["parts"][0]["fault_all"] = {"call": "link", "errno": er, "count": 1}
            jobs.append(cj)
    # step form of the register refinement on the same executions
    st0 = trace_check(work, out, jobs, ["PutNeverReplaces", "DirValid"], tag="c04")
    st0 = add_pool(work, out, st0, ["PutNeverReplaces"])
    tfiles = st0["files"]
    # an entry whose value is the EMPTY file is a value like any other: insert-if-absent operations (put, ensure) leave it alone.
    # (Planted by a world-building op: the actor's own values always carry a content header.  Judged by the step monitor only --
    # the register search and DirValid identify values by that header.)
    wempty = [op("mkfile", path="@TOP@/W/%s" % k, raw="", mode=0o444, mt_ago=50.0, at_ago=170.0)]
    ejobs = [seq_job("C04-empty-%d" % i_, "%s:empty-entry:%s" % (f_[0], prog_name(pr_)), f_[1], pr_, world=wempty, roots=f_[2], cfg_extra={"key": k})
             for i_, (f_, pr_) in enumerate([(plainf, [P(k), G(k), P(k), G(k)]), (stackf, [P(k), G(k)]), (stackf, [E(k), G(k)])])]
    st0e = trace_check(work, out, ejobs, ["PutNeverReplaces"], tag="c04e")
    res = validate_traces(work, "TraceLin", tfiles, {"monitors": []}, tag="c04l")
    byjob = {j["id"]: j for j in jobs}
    nops = 0
    nruns = 0
    for r in res:
        for v in r["verdicts"]:
            if "ops" in v and isinstance(v["ops"], int):
                nops += v["ops"]
                nruns += 1
            if v.get("viol"):
                job = byjob.get(v["job"], {})
                evs = find_run(tfiles, v["job"], v["run"]) or []
                from pipeline import explicit_job
                out.report("%s@%s" % (v["viol"][0][1], job.get("fam")),
                           dict(property="C04", monitor=v["viol"][0][1], spec="TraceLin", monitors=[], job=explicit_job(job, evs) if evs else job,
                                history=v.get("ops"), trace=slim_events(evs, 300)))
    # conformance of the same executions to Kismet.tla, and the design-level refinement
    from pipeline import conformance
    conf = conformance(work, tfiles, tag="c04k")
    for d in conf["drifts"][:5]:
        print("MODEL-DRIFT job=%s run=%s seq=%s at %s: %s" % (d["job"], d["run"], d.get("seq"), d.get("pcl"), d.get("why")), flush=True)
    design = design_runs(work, out, Q(["MCplain2q", "MCplain2", "MCplain3"], ["MCplain2q", "MCplain2", "MCplain3", "MCadv", "MCfault2"]))
    _, nev = count_runs(tfiles)
    cov = dict(states=sum(d["states"] for d in design) + sum(r["states"] for r in res) + conf["states"],
               transitions=sum(d["transitions"] for d in design) + nev,
               traces_validated_against_impl=nruns,
               samples=[dict(job=j["id"], fam=j["fam"]) for j in jobs[:3]],
               rule="histories of 2 participants x 1-2 operations (all program pairs with a writer and an observer, quick: seeded 26) and 3 x 1 from "
                    "{set, put, get, touch} on one key of a plain directory with eviction out of play, plus ensure on a stacked cache; schedules explored by DFS "
                    "over system-call decision points (preemption bound %s) / seeded random; every history searched for a linearization against Register.tla "
                    "(ensure = composite get;put;get); design level: StepRegister / StepGetLin refinement properties of Kismet.tla" % Q(3, "none"),
               histories=nruns, operations=nops, empty_entry_runs=st0e.get("runs", len(ejobs)), model_conformant=(len(conf["drifts"]) == 0), ops_conforming_to_Kismet_tla=conf["ops"],
               design_level=[dict(cfg=d["cfg"], states=d["states"], transitions=d["transitions"], ok=d["ok"], wall_s=round(d["wall"], 1)) for d in design])
    return finish("C04", out, t0, "model_checking", cov, BASE_ASSUME)


def seq_history(rng, keys, nops, nhandles, stacked, apis=("set", "put", "get", "touch")):
    prog = []
    for i in range(nops):
        api = rng.choice(apis if not stacked else apis + ("ensure",))
        k, (h, s2) = rng.choice(keys)
        o = op(api, k, hash=str(h), sec=str(s2), h=rng.randrange(nhandles))
        if api in ("set", "put", "ensure"):
            o["val"] = "v%d" % i
        prog.append(o)
    return prog


def seq_fronts(rng, thorough):
    """(name, cache, shard count, key set with hashes, shardcap)"""
    out = []
    plain_keys = [("k%d" % i, (i, i + 100)) for i in range(6)]
    for cap in (1, 2, 4, 9, 1000000):
        out.append(("plain-cap%d" % cap, plain("W", cap), 0, plain_keys, None, cap))
    for n in ((2, 3, 8) if not thorough else (2, 3, 4, 5, 8)):
        for total in (n, 2 * n, 3 * n + 1, 1000000):
            keys = []
            # colliding, swapped, coinciding (fix-up) and spread placements
            a, b = rng.randrange(n), rng.randrange(n)
            if a == b:
                b = (a + 1) % n
            for i, (x, y) in enumerate([(a, b), (a, b), (b, a), (rng.randrange(n), None), (rng.randrange(n), None), (a, None)]):
                for _ in range(2000):
                    h, s2 = rng.getrandbits(64), rng.getrandbits(64)
                    ids = shard_ids(h, s2, n)
                    if ids[0] == x and (y is None or ids[1] == y):
                        keys.append(("k%d" % i, (h, s2)))
                        break
            shardcap = (total + n - 1) // n
            out.append(("sharded%d-cap%d" % (n, total), sharded("W", n, total), n, keys, shardcap, total))
    for cap in (2, 1000000):
        out.append(("stack-plain-cap%d" % cap, stack(plain("W", cap), [plain("R1")], "none"), 0, plain_keys, None, cap))
    out.append(("stack-sharded", stack(sharded("W", 2, 4), [], "none"), 2, [("k%d" % i, (2 * i + 1, 2 * i + 2)) for i in range(5)], 2, 4))
    return out


def check_C11(work):
    t0 = time.time()
    out = Outcome("C11")
    rng = random.Random(seed())
    jobs = []
    nh = Q(2, 8)
    for fname, cache, n, keys, shardcap, cap in seq_fronts(rng, TIER == "thorough"):
        for r in range(nh):
            nops = rng.choice(Q([12, 25, 40], [40, 100, 200]))
            nhandles = rng.choice([1, 2, 3])
            stacked = cache["kind"] == "stack"
            prog = seq_history(rng, keys, nops, nhandles, stacked)
            draws = [str(rng.getrandbits(64) | 1) for _ in range(nops * 3)]
            p1 = part(1, cache, with_vals(prog, 1), str(rng.getrandbits(64) | 1), draws=draws, shard_script=[rng.randrange(64) for _ in range(nops * 2)],
                      handles=[cache] * nhandles)
            cfg = {"roots": roots_of(cache), "front": cache["kind"], "cap": cap, "seq": True}
            if shardcap:
                cfg["shardcap"] = shardcap
            if stacked:
                cfg["autosync"] = True
            jobs.append(job("C11-%s-%d" % (fname, r), [seq_stage(p1)], cfg, None, fam=fname))
    # the value handed to set / put is another hard link of the entry cached under the same key (a zero-copy refresh; a retry after a
    # put whose last unlink failed): rename of two links to one inode is a no-op, the source is consumed all the same
    for fname, cache, wd in (("plain", plain("W", 100), "W"), ("sharded", sharded("W", 2, 100), shard_dir("W", shard_ids(1, 2, 2)[0])),
                             ("stack", stack(plain("W", 100), [], "none"), "W")):
        hk = dict(hash="1", sec="2", srcdir="@TOP@/SRC")
        prog = [op("set", "k", "v1", **hk), op("set", "k", "v1", srclink="@TOP@/%s/k" % wd, **hk), op("get", "k", hash="1", sec="2"),
                op("put", "k", "v1", srclink="@TOP@/%s/k" % wd, **hk), op("get", "k", hash="1", sec="2"),
                op("set", "k", "v1", srclink="@TOP@/%s/k" % wd, **hk), op("set", "k", "v2", **hk), op("get", "k", hash="1", sec="2")]
        cfg = {"roots": roots_of(cache), "front": cache["kind"], "cap": 100, "seq": True}
        if fname == "sharded":
            cfg["shardcap"] = 50
        jobs.append(job("C11-relink-%s" % fname, [seq_stage(part(1, cache, prog, NEVER))], cfg, None, fam="%s:source-is-a-link-of-the-entry" % fname))
    mons = ["SeqMapOK", "OneCopy", "UnexplainedLoss", "SrcConsumed", "PruneOK", "DirValid", "HandleContentOK", "RemovalOK", "WriteSideFirst"]
    st = trace_check(work, out, jobs, mons, tag="c11")
    # values of unusual shape in the write cache (zero-length, one byte, all zeroes) above a read-only level holding an older value of
    # the same key: a value is whatever bytes were stored; lookups answer from the write cache (identity of the returned file, not its content)
    ejobs = []
    hk = dict(hash="1", sec="2")
    for wname, wr, wd in (("stack", plain("W", 100), "W"), ("stacksh", sharded("W", 2, 100), shard_dir("W", shard_ids(1, 2, 2)[0]))):
        for how in ("planted", "stored"):
            world = [op("mkfile", path="@TOP@/R1/%s" % k, key=k, val="old", chunks=1, w=0, mode=0o444, mt_ago=500.0, at_ago=620.0) for k in ("e0", "e1", "ez", "full")]
            prog = []
            if how == "planted":
                world += [op("mkfile", path="@TOP@/%s/e0" % wd, raw="", mode=0o444, mt_ago=300.0, at_ago=420.0),
                          op("mkfile", path="@TOP@/%s/e1" % wd, raw="x", mode=0o444, mt_ago=300.0, at_ago=420.0),
                          op("mkfile", path="@TOP@/%s/ez" % wd, raw="\u0000\u0000\u0000\u0000", mode=0o444, mt_ago=300.0, at_ago=420.0),
                          op("mkfile", path="@TOP@/%s/full" % wd, key="full", val="new", chunks=1, w=0, mode=0o444, mt_ago=300.0, at_ago=420.0)]
            else:
                prog += [op("set", "e0", "new", chunks=0, srcdir="@TOP@/SRC", **hk), op("put_tf", "e1", "new", chunks=0, **hk), op("set", "full", "new", srcdir="@TOP@/SRC", **hk)]
            for k in ("e0", "e1", "ez", "full"):
                prog += [op("get", k, **hk), op("touch", k, **hk), op("get", k, **hk)]
            cache = stack(wr, [plain("R1")], "none")
            ejobs.append(seq_job("C11-odd-%s-%s" % (wname, how), "%s:odd-values:%s" % (wname, how), cache, prog, world=world, draw=NEVER, shard_script=[1, 0] * 10,
                                 cfg_extra={"seq": True}))
    st2 = trace_check(work, out, ejobs, ["WriteSideFirst", "ROUntouched", "OneCopy"], tag="c11e")
    for k_ in ("runs", "events", "states", "violations", "fsmodel_mismatches"):
        st[k_] = st.get(k_, 0) + st2.get(k_, 0)
    jobs += ejobs
    st = add_pool(work, out, st, ["SeqMapOK", "OneCopy", "UnexplainedLoss", "SrcConsumed", "PruneOK", "DirValid", "HandleContentOK", "WriteSideFirst"], want=('seq',))
    design = design_runs(work, out, Q(["MCsc4", "MCshard1"], ["MCsc4", "MCclean", "MCshard1"]))
    cov = coverage_mc(st, design, "seeded sequential histories (12-40 operations quick, up to 200 thorough) of set/put/get/touch(/ensure) over <= 6 keys through 1-3 independent "
                      "handles on the same directories; plain (capacities 1, 2, 4, 9, huge), sharded (2-8 shards, total capacity n .. 3n+1 and huge; key hashes chosen to "
                      "collide, swap, coincide and spread), stacked; seeded trigger draws and random-shard choices (hooks); after every operation: SeqMapOK (lookup = "
                      "latest set else first put since absent), OneCopy, UnexplainedLoss (disappearance only in an operation that ran maintenance), PruneOK "
                      "(every maintenance is a Second Chance outcome at that directory's capacity), SrcConsumed", dict(jobs=len(jobs), monitors=mons))
    return finish("C11", out, t0, "model_checking", cov, BASE_ASSUME)


def check_C09(work):
    t0 = time.time()
    out = Outcome("C09")
    rng = random.Random(seed())
    jobs = []
    emuls = [("relatime", {}), ("noatime", {"noatime": True}), ("strict", {"strictatime": True})]
    grans = [0, 1, 2]
    fronts_ = [("plain", plain("W", 1000000), [("k%d" % i, (i, i + 7)) for i in range(3)]),
               ("sharded", sharded("W", 2, 1000000), [("k%d" % i, (2 * i + 1, 2 * i + 2)) for i in range(3)]),
               ("stack", stack(plain("W", 1000000), [], "none"), [("k%d" % i, (i, i + 7)) for i in range(3)])]
    nseq = Q(5, 35)
    for ename, em in emuls:
        for g in grans:
            for fname, cache, keys in fronts_:
                for r in range(nseq):
                    nops = rng.choice([6, 9, 12])
                    stacked = cache["kind"] == "stack"
                    prog = seq_history(rng, keys, nops, 1, stacked)
                    emul = dict(em)
                    if g:
                        emul["gran"] = g
                    cfg = {"roots": roots_of(cache), "front": cache["kind"], "cap": 1000000, "seq": True}
                    j = job("C09-%s-g%d-%s-%d" % (ename, g, fname, r), [seq_stage(part(1, cache, with_vals(prog, 1), NEVER))], cfg, None,
                            fam="%s:g%d:%s" % (ename, g, fname))
                    if emul:
                        j["emul"] = emul
                    jobs.append(j)
    # short exhaustive sequences on one key (every pair / triple of operations), default policy and no-atime
    for ename, em in (("relatime", {}), ("noatime", {"noatime": True})):
        for g in (0, 2):
            for seqn in itertools.product(("set", "put", "get", "touch"), repeat=3):
                prog = [op(a, "k0", hash="1", sec="2") for a in seqn]
                emul = dict(em)
                if g:
                    emul["gran"] = g
                cfg = {"roots": [root("W")], "front": "plain", "cap": 1000000, "seq": True}
                j = job("C09x-%s-g%d-%s" % (ename, g, "".join(a[0] for a in seqn)), [seq_stage(part(1, plain("W", 1000000), with_vals(prog, 1), NEVER))], cfg, None,
                        fam="%s:g%d:exh" % (ename, g))
                if emul:
                    j["emul"] = emul
                jobs.append(j)
    # a lookup marks the entry even when its queue position is ahead of the reader's clock (stamped by a writer whose clock runs fast):
    # the re-touch copies the entry's own mtime, it does not stamp "now"
    for ename, em in emuls:
        for fname, cache, keys in fronts_:
            k, (h, s2) = keys[0]
            a, b = shard_ids(h, s2, 2) if fname == "sharded" else (0, 0)
            d = shard_dir("W", a) if fname == "sharded" else "W"
            hk = dict(hash=str(h), sec=str(s2))
            pre = [op("set", k, "ahead", **hk), op("set", "other", "o", **hk)]
            world = [op("utimes", path="@TOP@/%s/%s" % (d, k), mt_ago=-300.0, at_ago=-180.0)]
            prog = [op("get", k, **hk), op("get", "other", **hk), op("get", k, **hk)]
            cfg = {"roots": roots_of(cache), "front": cache["kind"], "cap": 1000000, "seq": True}
            j = job("C09-ahead-%s-%s" % (ename, fname),
                    [seq_stage(part(8, cache, with_vals(pre, 8), NEVER)), seq_stage(part(9, plain("SRC/none"), world, NEVER)),
                     seq_stage(part(1, cache, prog, NEVER))], cfg, None, fam="%s:%s:mtime-ahead-of-clock" % (ename, fname))
            if em:
                j["emul"] = dict(em)
            jobs.append(j)
    # small caches: maintenance runs inside the histories; an entry it spares re-enters the queue UNMARKED, also when its use and the
    # maintenance fall into the same tick of a coarse clock
    for ename, em in emuls:
        for g in grans:
            for cap in (2, 3):
                keys = [("k%d" % i, (i, i + 7)) for i in range(4)]
                for r in range(Q(2, 10)):
                    prog = seq_history(rng, keys, rng.choice([10, 16]), 1, False)
                    emul = dict(em)
                    if g:
                        emul["gran"] = g
                    cfg = {"roots": [root("W")], "front": "plain", "cap": cap, "seq": True}
                    j = job("C09-maint-%s-g%d-c%d-%d" % (ename, g, cap, r), [seq_stage(part(1, plain("W", cap), with_vals(prog, 1), ALWAYS))], cfg, None,
                            fam="%s:g%d:small-cache" % (ename, g))
                    if emul:
                        j["emul"] = emul
                    jobs.append(j)
    mons = ["ReadMarks", "FreshOnWrite", "SeqMapOK", "DirValid", "Immutable", "ReprieveUnmarks"]
    st = trace_check(work, out, jobs, mons, tag="c09")
    st = add_pool(work, out, st, ["ReadMarks", "FreshOnWrite", "ReprieveUnmarks"], want=('seq',))
    design = design_runs(work, out, Q(["MCatime_relatime_3", "MCatime_noatime_3"], ["MCatime_relatime_3", "MCatime_noatime_3", "MCatime_strict_1", "MCatime_relatime_1", "MCatime_noatime_1", "MCatime_strict_3"]))
    cov = coverage_mc(st, design, "operation sequences (seeded, and all 64 triples of {set, put, get, touch} on one key) on plain / sharded / stacked front ends, issued back to back, "
                      "under tracer emulations of the access-time policy {kernel relatime, no-atime (O_NOATIME forced on every open), strict atime} x stored timestamp "
                      "granularity {native, 1 s, 2 s}; after every operation ReadMarks (marked, mtime and content unchanged) and FreshOnWrite (newest mtime of its "
                      "directory, not marked)", dict(jobs=len(jobs), monitors=mons))
    return finish("C09", out, t0, "model_checking", cov, BASE_ASSUME + ["emulation is of stored timestamps and O_NOATIME, not of a network filesystem's client cache"])


def check_C20(work):
    t0 = time.time()
    out = Outcome("C20")
    sizes = Q([0, 10, 100, 2000], [0, 10, 100, 2000, 5000])
    k = "k"
    H = {"hash": "1", "sec": "2"}
    jobs = []

    def seqops(hidx, stacked):
        ops = [("get-miss", op("get", k, **H)), ("touch-miss", op("touch", k, **H)), ("put-insert", op("put", k, **H)),
               ("put-existing", op("put", k, **H)), ("set-overwrite", op("set", k, **H)), ("get-hit", op("get", k, **H)),
               ("touch-hit", op("touch", k, **H)), ("set-fresh", op("set", "k2", **{"hash": "3", "sec": "4"}))]
        if stacked:
            ops += [("ensure-hit", op("ensure", k, **H)), ("ensure-miss", op("ensure", "k9", **H)), ("put_tf", op("put_tf", "k8", **H))]
        return [dict(o, h=hidx, grp=g, size=sizes[hidx]) for g, o in ops]

    fronts_ = [("plain", 0, "none"), ("sharded", 0, "none"), ("stack1", 0, "none"), ("stack2", 1, "none"), ("stack3", 2, "none"), ("stack3eq", 2, "eq"),
               ("stack5eq", 4, "eq"), ("stack7log", 6, "log")]
    for fname, nreaders, ck in fronts_:
        world, handles, prog = [], [], []
        for i, sz in enumerate(sizes):
            d = "D%d" % sz
            fill = d + "/.kismet_0000" if fname == "sharded" else d
            world.append(op("mkfiles", dir="@TOP@/" + fill, count=sz, prefix="e"))
            world.append(op("mkdir", path="@TOP@/" + fill + "/.kismet_temp"))
            if fname == "sharded":
                world.append(op("mkdir", path="@TOP@/" + d + "/.kismet_0001/.kismet_temp"))
            # every size gets its own read-only levels, in the same initial state
            readers = [plain("R%d_%d" % (r, sz)) for r in range(1, nreaders + 1)]
            for r in readers:
                world.append(op("mkfile", path=r["dir"] + "/" + k, key=k, val="same", chunks=1, w=1, mode=0o444, mt_ago=500.0, at_ago=620.0))
            if fname == "plain":
                handles.append(plain(d, 10000000))
            elif fname == "sharded":
                handles.append(sharded(d, 2, 20000000))
            else:
                handles.append(stack(plain(d, 10000000), readers, ck))
            ops_ = seqops(i, fname.startswith("stack"))
            for o in ops_:
                if o.get("key") == k and o["api"] in ("set", "put", "ensure"):
                    o["val"] = "same"
            prog += ops_
        stages = [seq_stage(part(9, plain("SRC/none"), world, NEVER)),
                  seq_stage(dict(part(1, handles[0], with_vals(prog, 1), NEVER), handles=handles))]
        j = job("C20-%s" % fname, stages, {"front": fname, "checker": ck}, None, fam=fname)
        j["snap"] = "none"
        jobs.append(j)
    # lookups under a failing open (a stale or vanished entry is a miss, not a reason to try again): the bounds hold on the error paths too
    a1, b1 = shard_ids(1, 2, 2)
    for fname in ("plain", "sharded", "stacksh"):
        world = []
        if fname == "plain":
            cache = plain("D", 10000000)
            world.append(op("mkfile", path="@TOP@/D/k", key=k, val="same", chunks=1, w=1, mode=0o444, mt_ago=500.0, at_ago=620.0))
        else:
            cache = sharded("D", 2, 20000000)
            world.append(op("mkdir", path="@TOP@/" + shard_dir("D", a1)))
            world.append(op("mkfile", path="@TOP@/%s/k" % shard_dir("D", b1), key=k, val="same", chunks=1, w=1, mode=0o444, mt_ago=500.0, at_ago=620.0))
            if fname == "stacksh":
                world.append(op("mkdir", path="@TOP@/" + shard_dir("R", a1)))
                world.append(op("mkfile", path="@TOP@/%s/kr" % shard_dir("R", b1), key="kr", val="same", chunks=1, w=1, mode=0o444, mt_ago=500.0, at_ago=620.0))
                cache = stack(cache, [{"kind": "sharded", "dir": "@TOP@/R", "shards": 2}], "none")
        prog = [dict(op("get", k, **H), grp="get-hit"), dict(op("get", "absent", **H), grp="get-miss"),
                dict(op("touch", k, **H), grp="touch-hit"), dict(op("touch", "absent", **H), grp="touch-miss")]
        if fname == "stacksh":
            prog += [dict(op("get", "kr", **H), grp="get-ro-hit"), dict(op("touch", "kr", **H), grp="touch-ro-hit")]
            # publishing paths whose flush / chmod / write / close fails: nothing stays open on the error path either
            prog += [dict(op("set_tf", "n1", "v", srcdir="@TOP@/SRC", **H), grp="set_tf"), dict(op("put_tf", "n2", "v", srcdir="@TOP@/SRC", **H), grp="put_tf"),
                     dict(op("ensure", "n3", "v", **H), grp="ensure-miss"), dict(op("ensure", "kr", "v", **H), grp="ensure-promote"),
                     dict(op("set", "n4", "v", srcdir="@TOP@/SRC", **H), grp="set"), dict(op("put", "n4", "v", srcdir="@TOP@/SRC", **H), grp="put-existing")]
        v = seq_stage(part(1, cache, prog, NEVER))
        v["victim"] = True
        j = job("C20-fault-%s" % fname, [seq_stage(part(9, plain("SRC/none"), world, NEVER)), v], {"front": fname, "checker": "none"},
                {"kind": "fault", "part": 1, "runs": 400, "errnos": {"open": ["ESTALE", "ENOENT"], "fsync": ["EIO"], "chmod": ["EIO"], "write": ["ENOSPC"],
                                                                     "link": ["EIO"], "rename": ["EIO"], "*": []}}, fam=fname + ":failing-open")
        j["snap"] = "none"
        jobs.append(j)
    # a long-lived handle: the same measured writes before and after hundreds of writes through the SAME handle (in-memory state such as
    # saturating load estimates must not make later operations list a directory)
    for fname, cache in (("sharded", sharded("D", 2, 20000000)), ("plain", plain("D", 10000000)), ("stacksh", stack(sharded("D", 2, 20000000), [], "none"))):
        hw = dict(hash="1", sec="2")
        # (a few unmeasured writes first: they create the directories)
        prog = [op("set", "a0", "v", **hw), op("put", "a1", "v", hash="7", sec="4"), op("set", "a2", "v", hash="7", sec="4")]
        prog += [dict(op("put", "c0", "v", **hw), grp="warm-put-fresh"), dict(op("set", "c1", "v", **hw), grp="warm-set-fresh"),
                dict(op("put", "c0", "v", **hw), grp="warm-put-existing"), dict(op("get", "c0", **hw), grp="warm-get")]
        nwarm = Q(560, 2000)
        prog += [op("put" if i % 2 else "set", "w%d" % i, "v", hash=str(2 * i + 1), sec=str(2 * i + 2)) for i in range(nwarm)]
        prog += [dict(op("put", "d0", "v", **hw), grp="warm-put-fresh"), dict(op("set", "d1", "v", **hw), grp="warm-set-fresh"),
                 dict(op("put", "d0", "v", **hw), grp="warm-put-existing"), dict(op("get", "d0", **hw), grp="warm-get")]
        for o in prog:
            if o["api"] in ("set", "put") and fname == "stacksh":
                o["srcdir"] = "@TOP@/SRC"
        j = job("C20-warm-%s" % fname, [seq_stage(part(1, cache, with_vals(prog, 1), NEVER))], {"front": fname, "checker": "none"}, None, fam=fname + ":warm-handle")
        j["snap"] = "none"
        jobs.append(j)
    tfiles = run_tracer(work, jobs, tag="c20")
    res = validate_traces(work, "TraceRes", tfiles, {"monitors": []}, tag="c20")
    nops = groups = 0
    byjob = {j["id"]: j for j in jobs}
    for r in res:
        for v in r["verdicts"]:
            nops += v.get("ops", 0)
            groups += v.get("groups", 0)
            if v.get("viol"):
                for mon in sorted(set(m for _, m in v["viol"])):
                    out.report("%s@%s" % (mon, byjob.get(v["job"], {}).get("fam")), dict(property="C20", job=byjob.get(v["job"]), viol=v["viol"][:20]))
    nruns, nev = count_runs(tfiles)
    # design level: InvFdBound / InvNoResidue of Kismet.tla (the library's own descriptors, every interleaving, with and without maintenance,
    # with one failing call)
    design = design_runs(work, out, Q(["MCplain2q", "MCstack2", "MCstack5q"], ["MCplain2q", "MCstack2", "MCstack4", "MCstack5", "MCstack6", "MCfault3"]))
    cov = dict(states=sum(r["states"] for r in res) + sum(d["states"] for d in design), transitions=nev + sum(d["transitions"] for d in design), traces_validated_against_impl=nruns,
               design_level=[dict(cfg=d["cfg"], states=d["states"], transitions=d["transitions"], ok=d["ok"], wall_s=round(d.get("wall", 0), 1)) for d in design],
               samples=[dict(front=j["fam"], sizes=sizes) for j in jobs[:2]],
               rule="each operation (get/touch miss and hit, put insert/existing, set overwrite/fresh, ensure hit/miss, put_temp_file) x front end "
                    "{plain, sharded, stack depth 1-3, stack depth 3 with checker} against directories pre-filled with %s entries, maintenance never firing: "
                    "identical library-phase call-count vectors across sizes, FdBound, NoResidue (+ /proc/self/fd cross-check), TwoOpensPerDir, NoLocks" % sizes,
               operations_judged=nops, operation_groups=groups, sizes=sizes)
    return finish("C20", out, t0, "model_checking", cov, BASE_ASSUME + ["counts calls, not bytes or time"])


def persistent_jobs(prefix):
    """One class of calls failing on EVERY attempt (descriptor table full, I/O error, ...) during a mixed sequence of operations."""
    pjobs = []
    hk = dict(hash="1", sec="2")
    for fname, cache in (("plain", plain("W", 4)), ("sharded", sharded("W", 2, 4)), ("stack", stack(plain("W", 4), [plain("R1")], "none"))):
        world = [op("mkfile", path="@TOP@/R1/kr", key="kr", val="ro", chunks=1, w=0, mode=0o444, mt_ago=300.0, at_ago=420.0)] if fname == "stack" else []
        pre = [op("set", "k1", "old1", **hk), op("set", "k2", "old2", **hk)]
        prog = [op("get", "k1", **hk), op("touch", "k1", **hk), op("get", "absent", **hk), op("put", "k1", **hk), op("set", "k3", **hk), op("put", "k4", **hk)]
        if fname == "stack":
            prog += [op("ensure", "k1", **hk), op("ensure", "kr", **hk), op("ensure", "k9", **hk), op("put_tf", "k5", **hk)]
        for call, errnos in (("open", ["EMFILE", "ENFILE", "EIO", "ESTALE", "ENOENT"]), ("stat", ["EIO", "ESTALE"]), ("link", ["EIO", "EMLINK"]), ("rename", ["EIO"]),
                             ("unlink", ["EIO"]), ("utimens", ["EIO"]), ("getdents", ["EIO"]), ("mkdir", ["EIO"]), ("chmod", ["EIO"])):
            for er in errnos:
                j = seq_job(prefix + "-persist-%s-%s-%s" % (fname, call, er), "%s:persistent:%s:%s" % (fname, call, er), cache, prog, world=world, pre=pre,
                            draw=ALWAYS, shard_script=[1, 0] * 10, fault_all={"call": call, "errno": er})
                j["op_call_limit"] = 600
                pjobs.append(j)
                if call in ("open", "stat") and er in ("ESTALE", "ENOENT", "EIO"):
                    # the same, but only for the entries of the cache directories themselves (a file that stays unopenable -- stale handle,
                    # dangling link -- while everything around it works)
                    cdirs = ["W", shard_dir("W", 0), shard_dir("W", 1), "R1"]
                    j2 = seq_job(prefix + "-persist-%s-%s-%s-entries" % (fname, call, er), "%s:persistent:%s:%s:entries-only" % (fname, call, er), cache, prog,
                                 world=world, pre=pre, draw=ALWAYS, shard_script=[1, 0] * 10, fault_all={"call": call, "errno": er, "dirs": cdirs})
                    j2["op_call_limit"] = 600
                    pjobs.append(j2)
    return pjobs


def check_C06(work):
    t0 = time.time()
    out = Outcome("C06")
    jobs = []
    for fr in fronts(1, ("plain", "sharded", "stack")):
        fams = [
            ([S("k1"), G("k2")], [P("k2"), T("k1")]),
            ([P("k1")], [P("k1"), G("k1")]),
            ([S("k1")], [S("k1"), T("k1")]),
        ]
        if fr[0].startswith("stack"):
            # (quick: the stacked front end runs the ensure / promote races only)
            fams = ([] if TIER == "quick" else fams) + [([E("k1")], [E("k1")]), ([E("k9"), G("k9")], [E("k9")]), ([U("k1", "promote")], [E("k1"), T("k1")])]
        for i, progs in enumerate(fams):
            fam = "%s:%s" % (fr[0], "||".join(prog_name(p) for p in progs))
            ex = {"kind": "solo", "bases": Q(2, 12), "stride": Q(2, 1), "seed": seed() + i, "runs": Q(220, 4000)}
            jobs.append(conc_job("C06-%s-%d" % (fr[0], i), fam, fr, progs, ex, draw=ALWAYS, prefill=(("k3", "old3"),)))
            big = fronts(100000, (fr[0],))[0]
            jobs.append(conc_job("C06-%s-%d-nomaint" % (fr[0], i), fam + ":nomaint", big, progs, dict(ex, runs=Q(120, 2000)), draw=NEVER))
    mons = ["SoloCompletes", "NoErr", "Bounded", "NoLocks"]
    st = trace_check(work, out, jobs, mons, tag="c06")
    # a participant never waits for a resource that only others can release either: with one class of calls failing PERSISTENTLY
    # (descriptor table full, I/O error on every attempt, ...) every operation still comes back (with an error, or a miss) within a
    # bounded number of calls -- no retry loop
    pjobs = persistent_jobs("C06")
    st2 = trace_check(work, out, pjobs, ["SoloCompletes", "NoLocks", "DirValid"], tag="c06p")
    st = merge_stats([st, st2])
    jobs += pjobs
    design = design_runs(work, out, Q(["MCcrashq"], ["MCcrashq", "MCcrash", "MCplain2"]))
    cov = coverage_mc(st, design, "solo-from-prefix: for every scheduler step j of seeded base schedules of 2 participants (maintenance on every write, and none), "
                      "each participant in turn runs alone until its current operation returns while the other stays frozen at its current system call; "
                      "judged by SoloCompletes / NoErr / Bounded (steps <= 96 + 8*listed entries; 64 for lookups) / NoLocks; design level: InvNonBlocking "
                      "(ENABLED of the participant's own next step in every reachable state, incl. after a peer's crash)",
                      dict(jobs=len(jobs), monitors=mons))
    return finish("C06", out, t0, "model_checking", cov, BASE_ASSUME)


# ---------------------------------------------------------------------------
# conformance self-check (not a property): the binding between specification and code

def check_conformance(work):
    """(1) TLC simulates Kismet.tla's coverage configurations and collects the (label, call, result) edges of the control
    flow it reaches; (2) real executions (plain and sharded, maintenance always/never, directories absent, adversary) are
    validated by TraceKismet, which reports the edges the real code took; (3) negative controls: a corrupted field and a
    dropped event class must be rejected (filesystem-model mismatch and/or model drift and/or monitor violation)."""
    t0 = time.time()
    out = Outcome("conformance")
    # (1) model edges
    model_edges = set()
    for cfgname in ("MCcover1", "MCcover2", "MCcover3", "MCcover3b", "MCcover4", "MCcover5"):
        module = "MCcover3" if cfgname == "MCcover3b" else cfgname
        r = run_mc(work, module, cfgname + ".cfg", cfgname, workers=1, timeout=600, simulate="num=%d" % Q(300, 3000))
        if r["violated"] or not r["cover"]:
            raise ToolError("coverage configuration %s failed: %s\n%s" % (cfgname, r["violated"], r["out"][-1500:]))
        model_edges |= set(tuple(e) for e in r["cover"])
    # (2) real edges
    jobs = []
    for fr in fronts(1, ("plain", "sharded")):
        fams = [([S("k1"), G("k2")], [P("k2"), T("k1"), P("k1")]), ([P("k1"), G("k3")], [S("k1"), T("k3")])]
        for i, progs in enumerate(fams):
            for pres, tag in ((False, "nodirs"), (True, "dirs")):
                jobs.append(conc_job("CF-%s-%d-%s" % (fr[0], i, tag), "%s:%s" % (fr[0], tag), fr, progs, rnd(Q(40, 400), seed() + i), draw=ALWAYS,
                                     presetup=pres, prefill=((("k3", "old3"),) if pres else ())))
                big = fronts(100000, (fr[0],))[0]
                jobs.append(conc_job("CF-%s-%d-%s-nm" % (fr[0], i, tag), "%s:%s:nomaint" % (fr[0], tag), big, progs, rnd(Q(20, 200), seed() + 50 + i),
                                     draw=NEVER, presetup=pres, prefill=((("k1", "old1"),) if pres else ())))
        jobs.append(conc_job("CF-%s-adv" % fr[0], "%s:adv" % fr[0], fr, ([S("k1"), G("k3")], [P("k3"), T("k1")]), rnd(Q(20, 100), seed() + 9), draw=ALWAYS,
                             prefill=(("k3", "old3"),), adv=[{"at": 9, "path": "W/k3" if fr[0] == "plain" else "W/.kismet_0000/k3"}]))
    # stacked caches: ensure, get_or_update with every judge, values staged outside the cache
    for fr in fronts(1, ("stack",)):
        sfams = [([E("k9"), U("k1", "replace"), U("kr", "promote"), T("kr")], [S("k1"), op("put_tf", "k9"), U("kr", "accept"), U("kr", "replace"), G("k9")]),
                 ([E("k1"), U("k2", "accept")], [U("k1", "replace"), T("k2"), G("k1")])]
        roworld = [op("mkfile", path="@TOP@/R1/kr", key="kr", val="ro", chunks=1, w=0, mode=0o444, mt_ago=300.0, at_ago=420.0)]
        for i, progs in enumerate(sfams):
            for pres, tag in ((False, "nodirs"), (True, "dirs")):
                cj = conc_job("CF-stack-%d-%s" % (i, tag), "stack:%s" % tag, fr, progs, rnd(Q(40, 400), seed() + 20 + i), draw=ALWAYS,
                              presetup=pres, prefill=((("k1", "old1"),) if pres else ()))
                cj["stages"].insert(0, seq_stage(part(9, plain("SRC/none"), roworld, NEVER)))
                jobs.append(cj)
                big = fronts(100000, ("stack",))[0]
                cj = conc_job("CF-stack-%d-%s-nm" % (i, tag), "stack:%s:nomaint" % tag, big, progs, rnd(Q(20, 200), seed() + 70 + i), draw=NEVER,
                              presetup=pres, prefill=((("k1", "old1"),) if pres else ()))
                cj["stages"].insert(0, seq_stage(part(9, plain("SRC/none"), roworld, NEVER)))
                jobs.append(cj)
    # stale and young debris in the temp directory
    jobs.append(seq_job("CF-debris", "plain:debris", plain("W", 1), [op("set", "a"), op("put", "b"), op("get", "a")],
                        world=[op("mkfile", path="@TOP@/W/.kismet_temp/stale", raw="x", mt_ago=4000.0, at_ago=4000.0),
                               op("mkfile", path="@TOP@/W/.kismet_temp/young", raw="y")], draw=ALWAYS))
    files = run_tracer(work, jobs, tag="cf")
    real_edges = set()
    ops = 0
    drifts = []
    for cfgname in (None, "TraceKismetSharded.cfg", "TraceKismetStack.cfg"):
        for r in validate_traces(work, "TraceKismet", files, {"monitors": []}, tag="cf" + (cfgname[11:13] if cfgname else "p"), cfgname=cfgname):
            real_edges |= set(tuple(e) for e in r["cover"])
            for v in r["verdicts"]:
                ops += v.get("ops", 0)
                if v.get("drift"):
                    drifts.append(dict(job=v["job"], run=v["run"], **v["drift"][0]))
    fsm = validate_traces(work, "TraceProps", files, {"monitors": ["DirValid"]}, tag="cfp")
    fsmis = sum(1 for r in fsm for v in r["verdicts"] if v.get("fsmis"))
    # (3) negative controls on one recorded run
    src = files[0]
    lines = open(src).read().splitlines()
    first_end = next(i for i, l in enumerate(lines) if '"e":"endrun"' in l)
    one = [json.loads(l) for l in lines[:first_end + 1]]
    controls = {}

    def run_control(name, evs):
        f = work.path("ctl-%s.ndjson" % name)
        with open(f, "w") as g:
            g.write("\n".join(json.dumps(e) for e in evs) + "\n")
        a = run_trace_tlc(work, "TraceProps", f, {"monitors": ["DirValid", "ReadOnlyFirst"]}, "ctlp" + name)
        b = run_trace_tlc(work, "TraceKismet", f, {"monitors": []}, "ctlk" + name)
        b2 = run_trace_tlc(work, "TraceKismet", f, {"monitors": []}, "ctls" + name, cfgname="TraceKismetSharded.cfg")
        rejected = any(v.get("fsmis") or v.get("viol") for v in a["verdicts"]) or any(v.get("drift") for v in b["verdicts"] + b2["verdicts"])
        controls[name] = bool(rejected)
    flipped = [dict(e, res="ENOENT") if (e.get("e") == "sys" and e.get("call") in ("rename", "link") and e.get("res") == "ok") else e for e in one]
    run_control("flip-res", flipped)
    run_control("drop-chmod", [e for e in one if not (e.get("e") == "sys" and e.get("call") == "chmod" and e.get("ph") == "lib")])
    run_control("drop-utimens", [e for e in one if not (e.get("e") == "sys" and e.get("call") == "utimens" and e.get("ph") == "lib")])
    run_control("unmodified", one)
    bad_controls = [k for k, v in controls.items() if (k == "unmodified") == v]
    # (4) binding R: model behaviours replayed into the real library must be reproduced call by call
    rst = replay.replay_check(work, out, ["DirValid"], Q(60, 800), seed=seed(), tag="cfr")
    rp = rst["replay"]
    drifts += rst.get("drifts", [])
    covered = model_edges & real_edges
    nruns, nev = count_runs(files)
    cov = dict(states=max(1, sum(r["states"] for r in fsm)), transitions=max(1, nev), traces_validated_against_impl=nruns,
               samples=[sorted(list(model_edges - real_edges))[:10]],
               model_edges=len(model_edges), real_edges=len(real_edges), model_edges_taken_by_real_code=len(covered),
               model_edges_not_taken=sorted(list(model_edges - real_edges)), real_edges_not_reached_by_simulation=sorted(list(real_edges - model_edges)),
               ops_conforming_to_Kismet_tla=ops, drifts=drifts[:5], fsmodel_mismatches=fsmis, negative_controls=controls,
               model_behaviours_replayed=rp)
    write_evidence("conformance", TIER, "model_checking", cov, time.time() - t0, 0, BASE_ASSUME)
    print("conformance: %d/%d model edges taken by real executions; %d real edges; %d ops conform; drift=%d fsmis=%d controls=%s" %
          (len(covered), len(model_edges), len(real_edges), ops, len(drifts), fsmis, controls))
    print("replay: %d behaviours generated by TLC, %d replayed, %d reproduced call by call, %d diverged" %
          (rp["behaviours"], rp["replayed"], rp["reproduced"], rp["diverged"]))
    if drifts or fsmis or bad_controls or rp["diverged"]:
        raise ToolError("conformance self-check failed: drifts=%s fsmis=%s controls=%s replay divergences=%s" %
                        (drifts[:2], fsmis, bad_controls, rp["first_divergences"][:2]))
    return 0


CHECKS = {"conformance": check_conformance, "C01": check_C01, "C02": check_C02, "C03": check_C03, "C04": check_C04, "C06": check_C06, "C08": check_C08, "C09": check_C09, "C10": check_C10, "C11": check_C11, "C12": check_C12, "C20": check_C20, "C13": check_C13, "C14": check_C14, "C15": check_C15, "C19": check_C19, "C05": check_C05, "C07": check_C07, "C16": check_C16, "C17": check_C17, "C18": check_C18}

NOT_APPLICABLE = {}
