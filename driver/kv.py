"""Driver core: build the harness, run tracer jobs, run TLC, collect verdicts, write evidence.

The driver contains no property logic: every verdict comes from TLC evaluating the
TLA+ specification (spec/*.tla) on recorded executions or on the design-level model.
"""
import json, os, subprocess, sys, time, shutil, hashlib, re, random
from concurrent.futures import ThreadPoolExecutor

VERIF = os.path.dirname(os.path.dirname(os.path.abspath(__file__)))
SPEC = os.environ.get("VERIF_SPEC") or os.path.join(VERIF, "spec")     # (VERIF_SPEC: a scratch copy while developing the specification)
# (VERIF_HARNESS / VERIF_EVIDENCE: a scratch copy of the harness built against a scratch copy of the repository, used only to
# evaluate seeded changes without touching /repo or the committed evidence; see driver/seed_eval.sh)
HARNESS = os.environ.get("VERIF_HARNESS") or os.path.join(VERIF, "harness")
TRACER = os.path.join(HARNESS, "target", "release", "kv-tracer")
ACTOR = os.path.join(HARNESS, "target", "release", "kv-actor")
NCPU = os.cpu_count() or 8
U64MAX = 18446744073709551615


class ToolError(Exception):
    pass


def log(*a):
    print(*a, file=sys.stderr, flush=True)


def seed():
    try:
        return int(os.environ.get("VERIF_SEED", "1"))
    except ValueError:
        return 1


def build():
    """Rebuild the harness against /repo's current working tree (hooks on)."""
    env = dict(os.environ, CARGO_NET_OFFLINE="true")
    lock = os.path.join(HARNESS, "Cargo.lock")
    if not os.path.exists(lock):
        shutil.copy("/repo/Cargo.lock", lock)
    t0 = time.time()
    r = subprocess.run(["cargo", "build", "--release", "--offline"], cwd=HARNESS, env=env,
                       stdout=subprocess.PIPE, stderr=subprocess.STDOUT, text=True)
    if r.returncode != 0:
        log(r.stdout[-4000:])
        raise ToolError("harness build failed (does /repo compile with --cfg kismet_verif?)")
    log("[build] harness ok in %.1fs" % (time.time() - t0))


class Work:
    def __init__(self, tag):
        self.dir = os.path.join(VERIF, "work", "%s-%d" % (tag, os.getpid()))
        shutil.rmtree(self.dir, ignore_errors=True)
        os.makedirs(self.dir)
        self.shm = "/dev/shm/kvw-%s-%d" % (tag, os.getpid())
        shutil.rmtree(self.shm, ignore_errors=True)
        os.makedirs(self.shm)

    def path(self, *p):
        return os.path.join(self.dir, *p)

    def cleanup(self):
        subprocess.run(["chmod", "-R", "u+rwx", self.shm], stderr=subprocess.DEVNULL)
        shutil.rmtree(self.shm, ignore_errors=True)
        shutil.rmtree(self.dir, ignore_errors=True)


def run_tracer(work, jobs, tag="t", nworkers=None, timeout=1800):
    """Runs the jobs through kv-tracer, sharded over nworkers processes.
    Returns the list of trace files (ndjson)."""
    nworkers = nworkers or min(NCPU - 2, 14)
    nworkers = max(1, min(nworkers, len(jobs)))
    shards = [[] for _ in range(nworkers)]
    # longest jobs first, round robin
    order = sorted(range(len(jobs)), key=lambda i: -jobs[i].get("explore", {}).get("runs", 1))
    for k, i in enumerate(order):
        shards[k % nworkers].append(jobs[i])
    files = []
    procs = []
    for w, sh in enumerate(shards):
        jf = work.path("%s-jobs-%d.ndjson" % (tag, w))
        of = work.path("%s-trace-%d.ndjson" % (tag, w))
        with open(jf, "w") as f:
            for j in sh:
                f.write(json.dumps(j) + "\n")
        wd = os.path.join(work.shm, "%s%d" % (tag, w))
        xd = work.path("xdev-%s%d" % (tag, w))      # on the filesystem of /verif, not on the worlds' tmpfs
        p = subprocess.Popen([TRACER, jf, of, "--work", wd, "--xdev", xd], stdout=subprocess.PIPE, stderr=subprocess.PIPE, text=True)
        procs.append((p, of))
    deadline = time.time() + timeout
    for p, of in procs:
        try:
            out, err = p.communicate(timeout=max(1, deadline - time.time()))
        except subprocess.TimeoutExpired:
            for q, _ in procs:
                q.kill()
            raise ToolError("kv-tracer timed out")
        if p.returncode != 0:
            raise ToolError("kv-tracer failed rc=%s: %s" % (p.returncode, err[-2000:]))
        files.append(of)
    return files


def tlc_env(xmx="3g"):
    env = dict(os.environ)
    env["JAVA_TOOL_OPTIONS"] = "-Xss1g -Xmx%s" % xmx
    return env


VERDICT_RE = re.compile(r'^<<"(?:VERDICT|CONF)", "(.*)">>$')
STATS_RE = re.compile(r'^<<"STATS", "(.*)">>$')
COVER_RE = re.compile(r'^<<"COVER", "(.*)">>$')
END_RE = re.compile(r'^<<"TRACE-END", (\d+), (\d+)>>')


def _unescape(s):
    return json.loads('"' + s + '"')


def run_trace_tlc(work, spec, trace_file, kvcfg, tag, cfgname=None, timeout=3600, extra_env=None):
    """Validates one trace file with a trace specification.  Returns dict(verdicts, consumed, total, states)."""
    meta = work.path("meta-%s" % tag)
    kvf = work.path("kvcfg-%s.json" % tag)
    with open(kvf, "w") as f:
        json.dump(kvcfg, f)
    env = tlc_env()
    env["TRACE"] = trace_file
    env["KVCFG"] = kvf
    if extra_env:
        env.update(extra_env)
    cfg = cfgname or (spec + ".cfg")
    cmd = ["timeout", str(timeout), "tlc", "-workers", "1", "-metadir", meta, "-noGenerateSpecTE", "-cleanup",
           "-config", cfg, spec + ".tla"]
    r = subprocess.run(cmd, cwd=SPEC, env=env, stdout=subprocess.PIPE, stderr=subprocess.STDOUT, text=True)
    shutil.rmtree(meta, ignore_errors=True)
    verdicts, consumed, total, states, mstats = [], None, None, 0, {}
    cover = []
    for line in r.stdout.splitlines():
        m = COVER_RE.match(line.strip())
        if m:
            cover = json.loads(_unescape(m.group(1)))
            continue
        m = STATS_RE.match(line.strip())
        if m:
            mstats = json.loads(_unescape(m.group(1)))
            continue
        m = VERDICT_RE.match(line.strip())
        if m:
            verdicts.append(json.loads(_unescape(m.group(1))))
            continue
        m = END_RE.match(line.strip())
        if m:
            consumed, total = int(m.group(1)), int(m.group(2))
        m = re.match(r"^(\d+) states generated, (\d+) distinct states found", line.strip())
        if m:
            states = int(m.group(2))
    if consumed is None or consumed != total or "Error:" in r.stdout:
        tail = "\n".join(l for l in r.stdout.splitlines() if not l.startswith(("/\\", "State "))) [-3000:]
        raise ToolError("trace validation did not consume the trace (%s/%s) for %s:\n%s" % (consumed, total, trace_file, tail))
    return dict(verdicts=verdicts, consumed=consumed, total=total, states=states, mstats=mstats, cover=cover)


def validate_traces(work, spec, trace_files, kvcfg, tag="v", extra_env=None, cfgname=None):
    """Validates every trace file (one TLC per file, in parallel)."""
    res = []
    with ThreadPoolExecutor(max_workers=max(1, min(len(trace_files), NCPU // 2))) as ex:
        futs = [ex.submit(run_trace_tlc, work, spec, f, kvcfg, "%s%d" % (tag, i), cfgname, 1800, extra_env)
                for i, f in enumerate(trace_files)]
        for f in futs:
            res.append(f.result())
    return res


def run_mc(work, module, cfg, tag, workers=8, timeout=1500, simulate=None):
    """Design-level TLC run.  Returns dict(ok, states, transitions, out, violated)."""
    meta = work.path("mc-%s" % tag)
    env = tlc_env("8g")
    cmd = ["timeout", str(timeout), "tlc", "-workers", str(workers), "-metadir", meta, "-noGenerateSpecTE", "-cleanup",
           "-coverage", "1", "-config", cfg]
    if simulate:
        cmd += ["-simulate", simulate, "-depth", "400"]
    cmd += [module + ".tla"]
    t0 = time.time()
    r = subprocess.run(cmd, cwd=SPEC, env=env, stdout=subprocess.PIPE, stderr=subprocess.STDOUT, text=True)
    shutil.rmtree(meta, ignore_errors=True)
    out = r.stdout
    states = transitions = 0
    m = re.search(r"(\d+) states generated, (\d+) distinct states found", out)
    if m:
        transitions, states = int(m.group(1)), int(m.group(2))
    violated = re.findall(r"(?:Invariant|property) (\S+) (?:is|was) violated", out)
    cover = []
    mc_ = re.search(r'^<<"COVER", "(.*)">>$', out, re.M)
    if mc_:
        cover = json.loads(_unescape(mc_.group(1)))
    ok = ("Model checking completed. No error has been found." in out) or (simulate and r.returncode in (0, 124) and not violated and "Error:" not in out)
    never = re.findall(r"^<(\w+) line \d+, col \d+ to line \d+, col \d+ of module \w+>: 0:0", out, re.M)
    return dict(ok=bool(ok), states=states, transitions=transitions, out=out, violated=violated,
                wall=time.time() - t0, never_taken=never, rc=r.returncode, cover=cover)


# ---- traces ----------------------------------------------------------------

def split_runs(trace_file):
    """Yields (job, run, [events]) for each run of a trace file."""
    cur = None
    with open(trace_file) as f:
        for line in f:
            e = json.loads(line)
            if e["e"] == "reset":
                cur = [e]
            elif cur is not None:
                cur.append(e)
                if e["e"] == "endrun":
                    yield cur[0]["job"], cur[0]["run"], cur
                    cur = None


def find_run(trace_files, job, run):
    for tf in trace_files:
        for j, r, evs in split_runs(tf):
            if j == job and r == run:
                return evs
    return None


def count_runs(trace_files):
    n = 0
    ev = 0
    for tf in trace_files:
        with open(tf) as f:
            for line in f:
                ev += 1
                if '"e":"reset"' in line:
                    n += 1
    return n, ev


# ---- known findings, replays, evidence ---------------------------------------

def load_findings():
    p = os.path.join(VERIF, "known-findings.txt")
    out = []
    if os.path.exists(p):
        for line in open(p):
            line = line.strip()
            if line.startswith("finding:"):
                m = re.match(r"finding:\s+property=(\S+)\s+key=(\S+)\s*(.*)", line)
                if m:
                    out.append(dict(prop=m.group(1), key=m.group(2), text=m.group(3)))
    return out


def write_replay(prop, payload):
    d = os.environ.get("VERIF_REPLAYS") or os.path.join(VERIF, "replays")
    os.makedirs(d, exist_ok=True)
    text = json.dumps(payload, sort_keys=True)
    h = hashlib.sha1(text.encode()).hexdigest()[:12]
    p = os.path.join(d, "%s-%s.json" % (prop, h))
    with open(p, "w") as f:
        f.write(text)
    return p


def write_evidence(prop, tier, level, coverage, wall, violations, assumptions):
    d = os.environ.get("VERIF_EVIDENCE") or os.path.join(VERIF, "evidence")
    os.makedirs(d, exist_ok=True)
    ev = dict(property_id=prop, tier=tier, seed=seed(), level=level, coverage=coverage, wall_s=round(wall, 2),
              violations=violations, assumptions=assumptions)
    with open(os.path.join(d, "%s.json" % prop), "w") as f:
        json.dump(ev, f, indent=1)
    return ev


def slim_events(evs, limit=40):
    """A readable sample of a run (snapshots dropped)."""
    out = []
    for e in evs[:limit]:
        e = {k: v for k, v in e.items() if k not in ("snap",)}
        out.append(e)
    return out


class Outcome:
    """Collects violations / known findings for one check invocation."""

    def __init__(self, prop):
        self.prop = prop
        self.violations = []   # (key, replay payload)
        self.known = []
        self.findings = [f for f in load_findings() if f["prop"] == prop]
        self.notes = []

    def report(self, key, payload):
        for f in self.findings:
            if f["key"] == key:
                if key not in [k for k, _ in self.known]:
                    self.known.append((key, f["text"]))
                return
        self.violations.append((key, payload))

    def finish(self):
        for key, text in self.known:
            print("KNOWN-FINDING: property=%s key=%s %s" % (self.prop, key, text), flush=True)
        seen = set()
        n = 0
        for key, payload in self.violations:
            if key in seen:
                continue
            seen.add(key)
            n += 1
            if n > 5:
                break
            p = write_replay(self.prop, payload)
            print("VIOLATION property=%s replay=%s" % (self.prop, p), flush=True)
            log("  witness: %s" % key)
        return 1 if self.violations else 0
