"""Builders for tracer jobs (worlds, participants, programs).  No property logic."""
import itertools, random

U64MAX = 18446744073709551615
NEVER = str(U64MAX)      # trigger draw that postpones maintenance as long as the period allows
ALWAYS = "1"             # trigger draw that fires at once

# ---- shard mapping (used only to *choose* hashes for test worlds; the oracle is ShardMap.tla) ----
PM, PA = 0x1118318e21fca3f5, 0x129fa3ff355eb0b2
SM, SA = 0x778324ea04de244f, 0x940cab7258b48cb6
M64 = (1 << 64) - 1


def shard_ids(h, s, n):
    n = max(n, 2)
    a = (n * ((h * PM + PA) & M64)) >> 64
    b = (n * ((s * SM + SA) & M64)) >> 64
    if a == b:
        b = b + 1 if b + 1 < n else 0
    return a, b


def shard_dir(root, i):
    return "%s/.kismet_%04x" % (root, i)


def find_hashes(n, want_a, want_b, rng, tries=100000):
    """Returns (hash, sec) whose shard ids are (want_a, want_b)."""
    for _ in range(tries):
        h, s = rng.getrandbits(64), rng.getrandbits(64)
        if shard_ids(h, s, n) == (want_a, want_b):
            return h, s
    raise RuntimeError("no hashes found")


# ---- caches -----------------------------------------------------------------
def plain(d="W", cap=100000):
    return {"kind": "plain", "dir": "@TOP@/" + d, "cap": cap}


def sharded(d="W", shards=2, cap=100000):
    return {"kind": "sharded", "dir": "@TOP@/" + d, "shards": shards, "cap": cap}


def stack(writer=None, readers=(), checker="none", auto_sync=None):
    """auto_sync=None leaves the library's default (documented: on) in place."""
    c = {"kind": "stack", "readers": list(readers), "checker": checker}
    if auto_sync is not None:
        c["auto_sync"] = auto_sync
    if writer:
        c["writer"] = writer
    return c


def ro(readers=(), checker="none"):
    return {"kind": "ro", "readers": list(readers), "checker": checker}


def root(id, kind="plain", role="w"):
    return {"id": id, "kind": kind, "role": role}


def roots_of(cache):
    """cfg.roots for a cache spec."""
    out = []
    if cache["kind"] in ("plain", "sharded"):
        out.append(root(cache["dir"].replace("@TOP@/", ""), cache["kind"], "w"))
    else:
        w = cache.get("writer")
        if w:
            out.append(root(w["dir"].replace("@TOP@/", ""), w["kind"], "w"))
        for r in cache.get("readers", []):
            out.append(root(r["dir"].replace("@TOP@/", ""), r["kind"], "ro"))
    return out


def op(api, key=None, val=None, **kw):
    o = {"api": api}
    if key is not None:
        o["key"] = key
    if val is not None:
        o["val"] = val
    o.update(kw)
    return o


def keyed(o, h, s):
    o = dict(o)
    o["hash"] = str(h)
    o["sec"] = str(s)
    return o


def part(pid, cache, prog, draw=NEVER, **kw):
    p = {"pid": pid, "cache": cache, "prog": prog, "draw_default": draw}
    p.update(kw)
    return p


def seq_stage(*parts):
    return {"mode": "seq", "parts": list(parts)}


def sched_stage(*parts, **kw):
    s = {"mode": "sched", "parts": list(parts)}
    s.update(kw)
    return s


def job(id, stages, cfg, explore=None, mkdirs=("SRC", "TMP"), **kw):
    j = {"id": id, "stages": stages, "cfg": cfg, "mkdirs": list(mkdirs)}
    if explore:
        j["explore"] = explore
    j.update(kw)
    return j


def dfs(runs, preempt=None):
    e = {"kind": "dfs", "runs": runs}
    if preempt is not None:
        e["preempt"] = preempt
    return e


def bursts(runs, stride=1, offset=0):
    """One context switch: a runs j steps, b runs to completion, then the rest -- for every ordered pair (a, b) and every j."""
    return {"kind": "bursts", "runs": runs, "stride": stride, "offset": offset}


def rnd(runs, seed):
    return {"kind": "random", "runs": runs, "seed": seed}


def with_vals(prog, pid):
    """Gives every writing op of a program a value that is unique to (participant, op)."""
    out = []
    for i, o in enumerate(prog):
        o = dict(o)
        if o["api"] in ("set", "put", "ensure", "gou", "set_tf", "put_tf") and "val" not in o:
            o["val"] = "p%do%d" % (pid, i + 1)
        if o["api"] in ("set", "put", "set_tf", "put_tf") and "srcdir" not in o:
            o["srcdir"] = "@TOP@/SRC"
        out.append(o)
    return out
