#!/bin/sh
# usage: seed_eval.sh <patch.diff> <check id>...
# Evaluates a seeded change WITHOUT touching /repo: a scratch worktree of /repo gets the patch, a scratch copy of the harness
# is built against it, the quick checks run with VERIF_HARNESS / VERIF_EVIDENCE pointing at the scratch copies; everything
# is removed afterwards.
set -u
P=$(readlink -f "$1"); shift
D=/tmp/seval-$$
mkdir -p $D/evidence
git -C /repo worktree add --detach $D/repo HEAD >/dev/null 2>&1 || { echo "cannot create worktree"; exit 2; }
cleanup() { git -C /repo worktree remove --force $D/repo >/dev/null 2>&1; rm -rf $D; }
trap cleanup EXIT
( cd $D/repo && git apply --check "$P" && git apply "$P" ) || { echo "patch does not apply"; exit 2; }
mkdir -p $D/harness
( cd /verif/harness && tar cf - --exclude=target . ) | ( cd $D/harness && tar xf - )
sed -i "s#path = \"/repo\"#path = \"$D/repo\"#" $D/harness/Cargo.toml
cd /verif
for c in "$@"; do
  echo "--- $c"
  VERIF_HARNESS=$D/harness VERIF_EVIDENCE=$D/evidence VERIF_REPLAYS=$D/replays timeout 2400 ./check "$c" --tier ${SEED_TIER:-quick} > $D/out.txt 2>&1
  grep -E "VIOLATION|KNOWN-FINDING|TOOL-ERROR|witness|rror|Traceback" $D/out.txt | head -8
  echo "  (model-drift lines: $(grep -c "MODEL-DRIFT" $D/out.txt))"
done
