#!/bin/sh
# usage: seed_eval.sh <patch.diff> <check id>... : applies a seeded change to /repo, runs the quick checks, reverts.
set -u
P="$1"; shift
cd /repo || exit 2
git apply --check "$P" || { echo "patch does not apply"; exit 2; }
git apply "$P"
cd /verif
for c in "$@"; do
  echo "--- $c"
  timeout 1500 ./check "$c" --tier quick 2>&1 | grep -E "VIOLATION|KNOWN-FINDING|TOOL-ERROR|MODEL-DRIFT|witness" | head -8
done
git -C /repo checkout -- .
git -C /repo status --short | head -3
