#!/bin/sh
# usage: mutant.sh <patch-or-sed-script.sh> <check id> : applies a change to /repo, runs the check (quick), reverts.
# The change is a shell script taking no arguments, run with cwd=/repo, or a .diff applied with git apply.
set -u
CH="$1"; shift
cd /repo || exit 2
case "$CH" in
  *.diff|*.patch) git apply "$CH" || { echo "patch does not apply"; exit 2; } ;;
  *) sh "$CH" || { echo "mutation script failed"; git checkout -- .; exit 2; } ;;
esac
cd /verif
rc=0
for c in "$@"; do
  timeout 1500 ./check "$c" --tier quick 2>&1 | grep -E "VIOLATION|KNOWN-FINDING|TOOL-ERROR|MODEL-DRIFT|witness" | head -12
done
git -C /repo checkout -- .
git -C /repo status --short | head -3
