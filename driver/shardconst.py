#!/usr/bin/env python3
"""Re-derives the shard mixer constants from SHA-256 of the two fixed strings and compares them with spec/ShardMap.tla."""
import hashlib, re, sys, os

def consts(key):
    h = hashlib.sha256(key).digest()
    mult = int.from_bytes(h[0:8], "little") | 1
    add = int.from_bytes(h[8:16], "little")
    return mult, add

def limbs(x):
    return list(x.to_bytes(8, "little"))

def main():
    spec = open(os.path.join(os.path.dirname(os.path.abspath(__file__)), "..", "spec", "ShardMap.tla")).read()
    pm, pa = consts(b"kismet: primary shard mixer")
    sm, sa = consts(b"kismet: secondary shard mixer")
    ok = True
    for name, val in (("PM", pm), ("PA", pa), ("SM", sm), ("SA", sa)):
        m = re.search(r"^%s == <<([0-9, ]+)>>" % name, spec, re.M)
        got = [int(x) for x in m.group(1).split(",")]
        if got != limbs(val):
            print("ShardMap.tla: %s = %s but SHA-256 gives %s (0x%016x)" % (name, got, limbs(val), val))
            ok = False
    print("shard mixer constants: %s" % ("ok" if ok else "MISMATCH"))
    return 0 if ok else 1

if __name__ == "__main__":
    sys.exit(main())
