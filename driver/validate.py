#!/usr/bin/env python3
"""Validates MANIFEST.json and evidence files against the schemas (run with python3-vt)."""
import json, sys, glob, jsonschema
m = json.load(open('/verif/MANIFEST.json'))
jsonschema.validate(m, json.load(open('/root/.vp/MANIFEST.schema.json')))
es = json.load(open('/root/.vp/EVIDENCE.schema.json'))
for f in sorted(glob.glob('/verif/evidence/*.json')):
    jsonschema.validate(json.load(open(f)), es)
    print("ok", f)
print("manifest ok:", len(m["checks"]), "checks")
