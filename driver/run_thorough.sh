#!/bin/sh
# usage: run_thorough.sh C03 C08 ... : runs thorough tiers in turn, logging a summary line each (evidence is then the thorough one)
cd /verif
for c in "$@"; do
  s=$(date +%s)
  out=$(timeout 7200 ./check $c --tier thorough 2>&1); r=$?
  e=$(( $(date +%s) - s ))
  echo "$c thorough rc=$r ${e}s $(echo "$out" | grep -E 'VIOLATION|TOOL-ERROR|KNOWN|DRIFT' | head -3 | tr '\n' ' ')"
  [ $r -ne 0 ] && echo "$out" | tail -15
done
