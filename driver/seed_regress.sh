#!/bin/sh
# usage: seed_regress.sh [name-glob]  : every seed under /verif/seeded against the quick check of its property (isolated; /repo untouched)
cd /verif
for d in seeded/${1:-*}/; do
  n=$(basename $d)
  p=$(jq -r .property $d/meta.json)
  out=$(./driver/seed_eval.sh $d/patch.diff $p 2>&1)
  if echo "$out" | grep -q "VIOLATION property=$p"; then
    echo "$n $p CAUGHT $(echo "$out" | grep witness | head -2 | tr '\n' ' ')"
  else
    echo "$n $p MISSED $(echo "$out" | grep -E 'rror|TOOL' | head -2 | tr '\n' ' ')"
  fi
done
