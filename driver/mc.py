"""Design-level model checking runs (spec/MC*.tla + .cfg)."""
import os
from kv import *


def run_design(work, name, workers=6, timeout=1500):
    cfg = os.path.join(SPEC, name + ".cfg")
    if not os.path.exists(cfg):
        raise ToolError("missing design configuration %s" % cfg)
    module = open(cfg).readline().strip().lstrip("\\* ").split()[-1] if open(cfg).readline().startswith("\\* MODULE") else name
    r = run_mc(work, module, name + ".cfg", name, workers=workers, timeout=timeout)
    r["cfg"] = name
    return r
