#!/usr/bin/env python3
"""Writes /verif/MANIFEST.json from the table below (kept next to the checks so that it stays valid)."""
import json, os, subprocess, sys
sys.path.insert(0, os.path.dirname(os.path.abspath(__file__)))
import checks

VERIF = os.path.dirname(os.path.dirname(os.path.abspath(__file__)))

TRUST = ("TLC 1.8.0 + CommunityModules; the Linux ptrace interface (every system call of the unprivileged actor processes is seen, "
         "calls are serialised by the tracer); tmpfs as the POSIX filesystem; the actor's self-describing value encoding.")

TV = "TLC trace validation (TraceProps.tla: PosixFS replay + Props monitors) of ptrace-recorded executions"
INFO = {
    "C01": ("model_checking", "§7 C01",
            "Kismet.tla (one action per system call) is model-checked exhaustively for 2 participants; the real library is driven through "
            "preemption-bounded DFS / seeded random schedules at system-call granularity by the ptrace tracer and every state of every "
            "execution is judged by TLC with Props!DirValid / HandleContentOK / Immutable; TraceKismet checks that the executions are paths of the model.",
            "TLC model checking of Kismet.tla + " + TV + " under ptrace-controlled schedules"),
    "C02": ("fault_enumeration", "§7 C02",
            "Every system-call boundary of every (operation, front end, pre-state) scenario is taken as a crash point (SIGKILL at syscall entry); "
            "DirValid/DebrisConfined hold in the post-crash tree, a fresh process's operations succeed (NoErr), young debris survives and aged debris is removed "
            "(YoungTempKept, StaleGone); design level: Kismet.tla with Crash enabled in every state.",
            "crash-point enumeration by ptrace + " + TV + "; TLC model checking of Kismet.tla with Crash"),
    "C03": ("model_checking", "§7 C03",
            "Complete system-call traces of every publishing path of the stacked cache are judged by DurableFirst (per-inode dirty/fsync/chmod bookkeeping "
            "in the trace specification) and Immutable; every fsync failing in turn must never be followed by publication.",
            TV + " incl. fsync fault injection"),
    "C04": ("model_checking", "§7 C04",
            "Every recorded history of concurrent set/put/get/touch/ensure on one key (DFS over system-call decision points) is searched for a linearization "
            "against Register.tla by TLC (ensure = composite get;put;get); the step form (PutNeverReplaces) is evaluated on every step; design level: the "
            "refinement properties StepRegister / StepGetLin of Kismet.tla under every interleaving; TraceKismet: the executions are paths of the model.",
            "TLC linearizability search (TraceLin/Register.tla) over ptrace-explored schedules + TLC refinement check of Kismet.tla"),
    "C05": ("model_checking", "§7 C05",
            "Kismet.tla's InvNoErr under every interleaving (design level) and Props!NoErr on real executions with capacity-1 caches, missing "
            "directories and an adversary deleting published files at every scheduler step.",
            "TLC model checking of Kismet.tla + " + TV + " with adversarial deletions"),
    "C06": ("model_checking", "§7 C06",
            "Design level: ENABLED of each participant's own next step in every reachable state of Kismet.tla (also after a peer crashed). Real code: from every "
            "scheduler step of base schedules each participant runs alone with all others frozen; it must return ok within the step bound, taking no lock.",
            "TLC model checking (InvNonBlocking) + solo-from-prefix executions under ptrace judged by TLC trace validation"),
    "C07": ("model_checking", "§7 C07",
            "SecondChance.tla's declarative relation PlanOK is proved (TLC, exhaustive n<=4) to accept exactly the outcomes of the textbook queue over all tie "
            "orders; lifted to directory snapshots (PruneOK) it judges the before/after state of real maintenance on enumerated populations.",
            "TLC exhaustive check of SecondChance.tla + TLC judgement (PruneOK) of enumerated on-disk populations"),
    "C08": ("model_checking", "§7 C08",
            "SecondChance.tla: Plan (the transcribed planner) = Clock (textbook queue) on the stably sorted input and PlanOK(Plan) for every input of the exhaustive "
            "domain; PlanOK accepts exactly the clock's outcomes over all tie orders (MCscExact); the real Update::new is run on the same exhaustive domain and on "
            "large/extreme inputs and each outcome is judged by PlanOK in TLC.",
            "TLC exhaustive check of SecondChance.tla + TLC judgement of the real planner's outcomes on an exhaustive input domain"),
    "C09": ("model_checking", "§7 C09",
            "Atime.tla: the (mtime, atime) encoding under every operation sequence, policy {strict, relatime, noatime}, granularity and passage of time (TLC); the real "
            "library is run under tracer emulations of those policies/granularities and ReadMarks / FreshOnWrite are evaluated by TLC after every operation.",
            "TLC model checking of Atime.tla + " + TV + " under emulated atime policies and timestamp granularities"),
    "C10": ("model_checking", "§7 C10",
            "Trigger.tla: for every period and every draw sequence of a 5/6-bit word no max(1,period) events pass without a fire (TLC); the real trigger is driven "
            "with scripted adversarial draws (hook) and real plain caches of capacity 0..200 and huge are written 3P+5 times: TriggerWindow, MaintWindow, "
            "MaintBeforePublish, CountBound judged by TraceTrigger.tla.",
            "TLC model checking of Trigger.tla + TLC judgement (TraceTrigger) of scripted-draw executions"),
    "C11": ("model_checking", "§7 C11",
            "Seeded sequential histories through 1-3 independent handles on plain/sharded/stacked caches; after every operation TLC evaluates SeqMapOK (abstract map), "
            "OneCopy, UnexplainedLoss, SrcConsumed and PruneOK (every maintenance is a Second Chance outcome at the directory's capacity).",
            TV + " of seeded sequential histories (abstract map + PruneOK)"),
    "C12": ("model_checking", "§7 C12",
            "ShardMap.tla computes the two shard indices and directory names in base-256 limb arithmetic (constants re-derived from SHA-256 by a generator); for every "
            "vector the probe order of a lookup, the landing shard of a put and read-backs by other handles are judged by TLC (TraceShard).",
            "TLC evaluation of ShardMap.tla on recorded probe/landing paths (exhaustive over the generated vector set)"),
    "C13": ("model_checking", "§7 C13",
            "Stack.tla gives the expected result / hit kind / post state for every point of the configuration matrix (laws checked by TLC over the whole domain); "
            "each point is built on disk and the real outcome is judged by Stack!ObservedOK.",
            "TLC check of Stack.tla + TLC judgement of the enumerated configuration matrix executed on the real library"),
    "C14": ("model_checking", "§7 C14",
            "As C13 with checker in {none, byte-equality, panicking, logging}: success iff all copies agree; the logging checker's comparison graph must connect "
            "every copy Stack.tla says must be compared; with no checker nothing is compared.",
            "TLC check of Stack.tla + TLC judgement of the enumerated matrix (checker variants)"),
    "C15": ("model_checking", "§7 C15",
            "ROUntouched is evaluated by TLC on every step of the stacked / read-only matrix runs: no successful mutating call under a read-only root, snapshots equal up to atime.",
            TV + " over the stacked-cache matrix"),
    "C16": ("model_checking", "§7 C16",
            "All names over a 5-class alphabet up to length 3 (thorough 4) plus boundary names x operations x front ends, cache inside a sentinel tree; "
            "ConfinedStrict / RejectedOK / RejectedNoEffect / OutsideUntouched evaluated by TLC on every call and snapshot.",
            TV + " over an enumerated name grammar"),
    "C17": ("model_checking", "§7 C17",
            "Populations mixing key files, dot-prefixed application files/directories, temp debris on both sides of the age limit; RemovalOK / DotFilesUntouched / "
            "YoungTempKept / StaleGone evaluated by TLC; design level: Kismet.tla's StepRemoval with stale and young debris.",
            TV + " over enumerated populations + TLC model checking of Kismet.tla (StepRemoval)"),
    "C18": ("fault_enumeration", "§7 C18",
            "For every library system call of every scenario and every plausible errno the call is skipped and failed (ptrace); FaultOK / FollowUpOK / NoLeak / "
            "DirValid / ReadsLastSet evaluated by TLC; the operation and a lookup are re-issued by a fresh process.",
            "fault enumeration by ptrace + " + TV),
    "C20": ("model_checking", "§7 C20",
            "The same operations are issued against directories pre-filled with 0/10/100/2000 entries; TraceRes.tla (TLC) demands identical per-operation call-count "
            "vectors, at most 2 (3 with a checker) descriptors open at once, no residue (cross-checked with /proc/self/fd), <= 2 open attempts per directory, no locks.",
            "TLC judgement (TraceRes.tla) of ptrace-recorded per-operation system-call traces across directory sizes"),
    "C19": ("model_checking", "§7 C19",
            "HandleModeOK (read-only, offset 0), Mode0444, ReadOnlyFirst evaluated by TLC on the stacked-cache matrix under umasks 000/022/077 with consuming judges and checkers.",
            TV + " over the stacked-cache matrix x umask"),
}


def main():
    props = [json.loads(l) for l in open(os.path.join(VERIF, "properties.jsonl"))]
    cks = []
    na = []
    for p in props:
        pid = p["id"]
        if pid in checks.CHECKS and pid in INFO:
            level, ref, text, tech = INFO[pid]
            cks.append({
                "property_id": pid,
                "quick_cmd": "./check %s --tier quick" % pid,
                "thorough_cmd": "./check %s --tier thorough" % pid,
                "evidence_file": "/verif/evidence/%s.json" % pid,
                "replay_cmd_template": "./check %s --replay {path}" % pid,
                "engine": "tlc-trace-validation",
                "level_claimed": {"category": level, "text": text, "design_ref": ref},
                "level_note": TRUST,
                "technique": tech,
            })
        else:
            na.append({"property_id": pid, "reason": checks.NOT_APPLICABLE.get(pid, "check not built yet in this round (see DESIGN.md §12); not claimed")})
    commits = subprocess.run(["git", "-C", "/repo", "log", "--format=%H %s"], stdout=subprocess.PIPE, text=True).stdout.splitlines()
    hook_commits = [c.split()[0] for c in commits if "verif hooks" in c]
    m = {
        "version": 1,
        "setup_cmd": "./setup.sh",
        "hooks": {
            "guard": "kismet_verif",
            "enable": "RUSTFLAGS='--cfg kismet_verif' via /verif/harness/.cargo/config.toml (path dependency on /repo)",
            "baseline_off_cmd": "cd /repo && cargo test --workspace --no-fail-fast --offline",
            "source_commits": hook_commits,
            "add_only": True,
        },
        "engines": [
            {"name": "tlc-trace-validation", "path": "/verif/spec", "serves_properties": [c["property_id"] for c in cks],
             "kind_free_text": "explicit TLA+ specification (PosixFS, Kismet, Props, SecondChance, ...) checked by TLC; bound to the code by "
                               "trace validation of ptrace-recorded executions (harness/kv-tracer, kv-actor) and by enumerated cases"},
        ],
        "checks": cks,
        "not_applicable": na,
        "notes": "See DESIGN.md. Every verdict is a TLC evaluation of a formula of spec/*.tla; exit 2 = tool error.",
    }
    with open(os.path.join(VERIF, "MANIFEST.json"), "w") as f:
        json.dump(m, f, indent=1)
    print("MANIFEST.json: %d checks, %d not claimed" % (len(cks), len(na)))


if __name__ == "__main__":
    main()
