#!/usr/bin/env python3
"""Writes /verif/MANIFEST.json from the table below (kept next to the checks so that it stays valid)."""
import json, os, subprocess, sys
sys.path.insert(0, os.path.dirname(os.path.abspath(__file__)))
import checks

VERIF = os.path.dirname(os.path.dirname(os.path.abspath(__file__)))

TRUST = ("TLC 1.8.0 + CommunityModules; the Linux ptrace interface (every system call of the unprivileged actor processes is seen, "
         "calls are serialised by the tracer); tmpfs as the POSIX filesystem; the actor's self-describing value encoding.")

INFO = {
    "C01": ("model_checking", "§7 C01",
            "Kismet.tla (one action per system call) is model-checked exhaustively for 2 participants; the real library is driven through "
            "preemption-bounded DFS / seeded random schedules at system-call granularity by the ptrace tracer and every state of every "
            "execution is judged by TLC with Props!DirValid / HandleContentOK / Immutable; TraceKismet checks that the executions are paths of the model.",
            "TLC model checking of Kismet.tla + TLC trace validation (TraceProps, TraceKismet) of ptrace-scheduled executions"),
    "C05": ("model_checking", "§7 C05",
            "Kismet.tla's InvNoErr under every interleaving (design level) and Props!NoErr on real executions with capacity-1 caches, missing "
            "directories and an adversary deleting published files at every scheduler step.",
            "TLC model checking of Kismet.tla + TLC trace validation of ptrace-scheduled executions with adversarial deletions"),
}


def main():
    props = [json.loads(l) for l in open(os.path.join(VERIF, "properties.jsonl"))]
    cks = []
    na = []
    for p in props:
        pid = p["id"]
        if pid in checks.CHECKS and pid in INFO:
            level, ref, text, tech = INFO[pid]
            cks.append({
                "property_id": pid,
                "quick_cmd": "./check %s --tier quick" % pid,
                "thorough_cmd": "./check %s --tier thorough" % pid,
                "evidence_file": "/verif/evidence/%s.json" % pid,
                "replay_cmd_template": "./check %s --replay {path}" % pid,
                "engine": "tlc-trace-validation",
                "level_claimed": {"category": level, "text": text, "design_ref": ref},
                "level_note": TRUST,
                "technique": tech,
            })
        else:
            na.append({"property_id": pid, "reason": checks.NOT_APPLICABLE.get(pid, "check not built yet in this round (see DESIGN.md §12); not claimed")})
    commits = subprocess.run(["git", "-C", "/repo", "log", "--format=%H %s"], stdout=subprocess.PIPE, text=True).stdout.splitlines()
    hook_commits = [c.split()[0] for c in commits if "verif hooks" in c]
    m = {
        "version": 1,
        "setup_cmd": "./setup.sh",
        "hooks": {
            "guard": "kismet_verif",
            "enable": "RUSTFLAGS='--cfg kismet_verif' via /verif/harness/.cargo/config.toml (path dependency on /repo)",
            "baseline_off_cmd": "cd /repo && cargo test --workspace --no-fail-fast --offline",
            "source_commits": hook_commits,
            "add_only": True,
        },
        "engines": [
            {"name": "tlc-trace-validation", "path": "/verif/spec", "serves_properties": [c["property_id"] for c in cks],
             "kind_free_text": "explicit TLA+ specification (PosixFS, Kismet, Props, SecondChance, ...) checked by TLC; bound to the code by "
                               "trace validation of ptrace-recorded executions (harness/kv-tracer, kv-actor) and by enumerated cases"},
        ],
        "checks": cks,
        "not_applicable": na,
        "notes": "See DESIGN.md. Every verdict is a TLC evaluation of a formula of spec/*.tla; exit 2 = tool error.",
    }
    with open(os.path.join(VERIF, "MANIFEST.json"), "w") as f:
        json.dump(m, f, indent=1)
    print("MANIFEST.json: %d checks, %d not claimed" % (len(cks), len(na)))


if __name__ == "__main__":
    main()
