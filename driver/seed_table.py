#!/usr/bin/env python3
"""Regenerates the seed table of DESIGN.md (between the SEEDS markers) from seeded/*/meta.json."""
import glob, json, os, re
VERIF = os.path.dirname(os.path.dirname(os.path.abspath(__file__)))


def cell(s):
    return str(s).replace("|", "\\|").replace("\n", " ")


def main():
    rows = ["| seed | needs | caught by | first run |", "|---|---|---|---|"]
    n = missed = still = 0
    for mf in sorted(glob.glob(os.path.join(VERIF, "seeded/*/meta.json"))):
        m = json.load(open(mf))
        name = os.path.basename(os.path.dirname(mf))
        st = m.get("status", "")
        first = "caught"
        if st.startswith("missed, open"):
            missed += 1
            still += 1
            first = "**missed, still open**; " + st[len("missed, open:"):].strip()
        elif st.startswith("missed"):
            missed += 1
            first = "**missed**; " + re.sub(r"^missed at first[^;(]*[;(]?\s*", "", st).rstrip(")")
        rows.append("| %s | %s | %s | %s |" % (name, cell(m.get("needs_to_manifest", "")), cell("; ".join(m.get("caught_by", []))), cell(first)))
        n += 1
    rows.append("")
    rows.append("%d seeds, %d missed by the checks as they stood when the seed arrived (each miss led to the strengthening named in its row); "
                "%d are caught by the current checks%s." % (n, missed, n - still,
                                                             "" if not still else "; %d arrived too late to be closed and is recorded as an open miss in its row" % still))
    p = os.path.join(VERIF, "DESIGN.md")
    s = open(p).read()
    a, b = s.index("<!-- SEEDS-BEGIN -->"), s.index("<!-- SEEDS-END -->")
    s = s[:a] + "<!-- SEEDS-BEGIN -->\n" + "\n".join(rows) + "\n" + s[b:]
    open(p, "w").write(s)
    print("%d seeds (%d first missed)" % (n, missed))


if __name__ == "__main__":
    main()
