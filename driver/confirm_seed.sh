#!/bin/sh
# confirm_seed.sh <Cxx> <demo-kind: test:<name>|script:<path>> : confirms a seed in its scratch worktree.
C=$1; KIND=$2
WT=/tmp/wt-$C
cd $WT || exit 2
export CARGO_TARGET_DIR=$WT/target
run_demo() {
  case "$KIND" in
    test:*) n=${KIND#test:}; mkdir -p tests; cp seed/demo.rs tests/$n.rs; timeout 900 cargo test --offline --test $n >/tmp/demo-$C.log 2>&1; rc=$?; rm -f tests/$n.rs; rmdir tests 2>/dev/null; return $rc;;
    script:*) s=${KIND#script:}; timeout 900 sh $s >/tmp/demo-$C.log 2>&1; return $?;;
  esac
}
git checkout -- src 2>/dev/null
run_demo; clean=$?
git apply seed/patch.diff || { echo "$C: patch does not apply"; exit 2; }
timeout 900 cargo test --offline --lib >/tmp/suite-$C.log 2>&1; suite=$?
spass=$(grep -c "test result: ok. 79 passed" /tmp/suite-$C.log)
run_demo; mut=$?
git checkout -- src
echo "$C: demo clean rc=$clean, suite with patch rc=$suite (79 passed: $spass), demo with patch rc=$mut"
