"""Generic pipeline: jobs -> real executions (kv-tracer) -> TLC trace validation -> verdicts."""
import json, os, time, copy
from kv import *


def explicit_job(job, evs):
    """The job that reproduces one recorded run: explicit schedule instead of exploration."""
    j = copy.deepcopy(job)
    j.pop("explore", None)
    end = evs[-1]
    j["sched"] = end.get("sched", [])
    solo = (evs[0].get("cfg") or {}).get("solo")
    if solo:
        for st in j.get("stages", []):
            if st.get("mode") == "sched":
                st["solo"] = solo
    inj = (evs[0].get("cfg") or {}).get("inject")
    if inj:
        for st in j.get("stages", []):
            if st.get("victim"):
                for p in st.get("parts", []):
                    if inj["kind"] == "crash":
                        p["crash_at"] = inj["at"]
                    else:
                        p["fault_at"] = inj["at"]
                        p["fault_errno"] = inj["errno"]
    return j


def conformance(work, files, tag="k"):
    """TraceKismet: is every recorded plain-cache operation a path through Kismet.tla's control flow?"""
    res = validate_traces(work, "TraceKismet", files, {"monitors": []}, tag=tag) + \
        validate_traces(work, "TraceKismet", files, {"monitors": []}, tag=tag + "s", cfgname="TraceKismetSharded.cfg") + \
        validate_traces(work, "TraceKismet", files, {"monitors": []}, tag=tag + "t", cfgname="TraceKismetStack.cfg")
    ops = 0
    drifts = []
    for r in res:
        for v in r["verdicts"]:
            ops += v.get("ops", 0)
            if v.get("drift"):
                drifts.append(dict(job=v["job"], run=v["run"], **v["drift"][0]))
    return dict(ops=ops, drifts=drifts, states=sum(r["states"] for r in res))


def trace_check(work, out, jobs, monitors, spec="TraceProps", tag="t", extra_env=None, fsmis_fatal=False,
                key_of=None, nworkers=None, conform=False):
    """Runs jobs, validates traces, reports violations into `out` (an Outcome).
    Returns stats dict."""
    t0 = time.time()
    byid = {j["id"]: j for j in jobs}
    files = run_tracer(work, jobs, tag=tag, nworkers=nworkers)
    t1 = time.time()
    results = validate_traces(work, spec, files, {"monitors": monitors}, tag=tag, extra_env=extra_env)
    t2 = time.time()
    nruns, nevents = count_runs(files)
    states = sum(r["states"] for r in results)
    mstats = {}
    for r in results:
        for k, v in (r.get("mstats") or {}).items():
            mstats[k] = mstats.get(k, 0) + v
    nviol = 0
    fsmis = 0
    detailed = 0
    index = None
    for r in results:
        for v in r["verdicts"]:
            if v.get("fsmis"):
                fsmis += 1
                log("[fsmodel] mismatch job=%s run=%s at %s" % (v["job"], v["run"], v["fsmis"][:3]))
            if not v.get("viol"):
                continue
            nviol += 1
            detailed += 1
            if detailed > 25:
                # enough witnesses collected; keep counting only
                continue
            if index is None:
                index = {}
                for tf in files:
                    for j, rno, evs_ in split_runs(tf):
                        index[(j, rno)] = evs_ if len(index) < 0 else tf
            evs = find_run([index.get((v["job"], v["run"]), files[0])], v["job"], v["run"]) or []
            job = byid.get(v["job"], {})
            mons = sorted(set(m for _, m in v["viol"]))
            for mon in mons:
                seqs = [s for s, m in v["viol"] if m == mon]
                ev = next((e for e in evs if e.get("seq") == seqs[0]), {})
                key = key_of(job, mon, ev, evs) if key_of and not str(job.get("fam", "")).startswith("pool:") else "%s@%s" % (mon, job.get("fam", v["job"]))
                payload = dict(property=out.prop, monitor=mon, spec=spec, monitors=monitors, seq=seqs[0],
                               job=explicit_job(job, evs) if job else None,
                               event={k: x for k, x in ev.items() if k != "snap"},
                               trace=slim_events(evs, 400))
                out.report(key, payload)
    if fsmis and fsmis_fatal:
        raise ToolError("filesystem model disagrees with %d recorded runs" % fsmis)
    # a few sample runs for the evidence file
    samples = []
    for tf in files[:2]:
        for j, rno, evs in split_runs(tf):
            samples.append(dict(job=j, run=rno, sched=evs[-1].get("sched"), events=slim_events(evs, 12)))
            break
    st = dict(runs=nruns, events=nevents, states=states, trace_s=t1 - t0, tlc_s=t2 - t1, violations=nviol,
              fsmodel_mismatches=fsmis, samples=samples, files=files, conf_ops=0, drifts=[], mstats=mstats)
    if conform:
        c = conformance(work, files, tag=tag + "k")
        st["conf_ops"] = c["ops"]
        st["drifts"] = c["drifts"]
        st["states"] += c["states"]
        for d in c["drifts"][:5]:
            print("MODEL-DRIFT job=%s run=%s seq=%s at %s: %s (got %s)" % (d["job"], d["run"], d.get("seq"), d.get("pcl"), d.get("why"), d.get("got")), flush=True)
    return st


def replay(work, path):
    """Re-executes a replay file against the current tree and re-validates it."""
    payload = json.load(open(path))
    out = Outcome(payload["property"])
    out.findings = []
    job = payload["job"]
    st = trace_check(work, out, [job], payload["monitors"], spec=payload.get("spec", "TraceProps"), tag="r")
    return out, st
