#!/bin/sh
# Builds the verification harness offline and parses every specification module.
set -e
cd "$(dirname "$0")"
export CARGO_NET_OFFLINE=true
[ -f harness/Cargo.lock ] || cp /repo/Cargo.lock harness/Cargo.lock
(cd harness && cargo build --release --offline 2>&1 | tail -3)
for m in spec/*.tla; do
  (cd spec && timeout 120 tla-sany "$(basename "$m")" >/dev/null 2>&1) || { echo "SANY failed on $m"; exit 1; }
done
mkdir -p work evidence
echo "setup ok"
