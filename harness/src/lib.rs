//! Shared pieces of the kismet-cache verification harness.
//!
//! Nothing in here knows anything about the properties: the actor drives
//! the real library, the tracer records/schedules/faults, and TLC judges.
pub mod content;
