//! Self-describing cache values.
//!
//! A value `val` of `of` chunks for key `key` written by participant `w` is
//! `of` blocks of `chunk` bytes.  Every block carries a 96-byte ASCII header
//! (`KV1|key|val|w|idx|of|sum|`, padded with '.') followed by a filler that is a
//! function of the header, so that any prefix, mixture or foreign block
//! decodes to exactly which chunks of which value are present.
use serde_json::{json, Value};

pub const HEADER: usize = 96;

fn fnv(data: &[u8]) -> u32 {
    let mut h: u32 = 0x811c9dc5;
    for b in data {
        h ^= *b as u32;
        h = h.wrapping_mul(0x01000193);
    }
    h
}

pub fn make_chunk(key: &str, val: &str, w: u32, idx: u32, of: u32, chunk: usize) -> Vec<u8> {
    assert!(chunk >= HEADER);
    let body = format!("KV1|{}|{}|{}|{}|{}|", key, val, w, idx, of);
    let sum = fnv(body.as_bytes());
    let mut head = format!("{}{:08x}|", body, sum).into_bytes();
    assert!(head.len() <= HEADER, "key/val too long for the block header");
    head.resize(HEADER, b'.');
    let mut out = head;
    let mut x = sum | 1;
    while out.len() < chunk {
        // xorshift filler
        x ^= x << 13;
        x ^= x >> 17;
        x ^= x << 5;
        out.push(b'a' + (x % 26) as u8);
    }
    out
}

#[derive(Debug, Clone, PartialEq)]
pub struct Block {
    pub key: String,
    pub val: String,
    pub w: u32,
    pub idx: u32,
    pub of: u32,
}

fn parse_block(data: &[u8], chunk: usize) -> Option<Block> {
    if data.len() != chunk || chunk < HEADER {
        return None;
    }
    let head = std::str::from_utf8(&data[..HEADER]).ok()?;
    let parts: Vec<&str> = head.split('|').collect();
    if parts.len() < 8 || parts[0] != "KV1" {
        return None;
    }
    let b = Block {
        key: parts[1].to_string(),
        val: parts[2].to_string(),
        w: parts[3].parse().ok()?,
        idx: parts[4].parse().ok()?,
        of: parts[5].parse().ok()?,
    };
    let expect = make_chunk(&b.key, &b.val, b.w, b.idx, b.of, chunk);
    if expect == data {
        Some(b)
    } else {
        None
    }
}

/// Decodes file contents.  The result is a JSON object:
/// `{"len":n, "kind":"empty"|"value"|"mixed"|"garbage"|"raw", "key","val","w","chunks":[..],"of"}`.
/// `kind = "value"` means every block parsed and all blocks agree on
/// (key, val, w, of); `chunks` lists the block indices in file order, so a
/// complete value has `chunks = 1..of`.  A trailing partial block, a block that
/// fails its checksum or blocks of different values give "mixed"/"garbage".
pub fn decode(data: &[u8], chunk: usize) -> Value {
    if data.is_empty() {
        return json!({"len": 0, "kind": "empty"});
    }
    if data.len() < 64 && data.iter().all(|b| b.is_ascii_graphic() || *b == b' ') {
        // Small raw files planted by world-building ops (application dot files, debris).
        return json!({"len": data.len(), "kind": "raw", "text": String::from_utf8_lossy(data)});
    }
    let mut blocks = Vec::new();
    let mut bad = 0usize;
    for part in data.chunks(chunk) {
        match parse_block(part, chunk) {
            Some(b) => blocks.push(b),
            None => bad += 1,
        }
    }
    if blocks.is_empty() {
        return json!({"len": data.len(), "kind": "garbage"});
    }
    let first = blocks[0].clone();
    let same = blocks
        .iter()
        .all(|b| b.key == first.key && b.val == first.val && b.w == first.w && b.of == first.of);
    let chunks: Vec<u32> = blocks.iter().map(|b| b.idx).collect();
    if same && bad == 0 {
        json!({"len": data.len(), "kind": "value", "key": first.key, "val": first.val,
               "w": first.w, "chunks": chunks, "of": first.of})
    } else {
        let descr: Vec<String> = blocks
            .iter()
            .map(|b| format!("{}:{}:{}:{}/{}", b.key, b.val, b.w, b.idx, b.of))
            .collect();
        json!({"len": data.len(), "kind": "mixed", "bad": bad, "blocks": descr})
    }
}
