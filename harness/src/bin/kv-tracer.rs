//! kv-tracer: ptrace-based recorder / scheduler / fault injector.
//!
//! Usage: kv-tracer <jobs.ndjson> <out.ndjson> [--actor <path>] [--work <dir>]
//!
//! For every job the tracer builds a fresh world directory, runs the job's
//! stages (each stage = one or more kv-actor processes), and appends one
//! ndjson event per recorded system call / API record / snapshot.  Exactly one
//! tracee runs at any time; every other live participant is stopped at the
//! entry of its next decision-point call.  The tracer contains no property
//! logic: it drives, records, kills, fails calls and snapshots.
use kv_harness::content::decode;
use serde_json::{json, Map, Value};
use std::collections::{BTreeMap, HashMap};
use std::ffi::CString;
use std::io::Write;
use std::os::unix::ffi::OsStrExt;
use std::os::unix::fs::MetadataExt;
use std::path::{Path, PathBuf};

const REC_FD: i32 = 999;

// ---------------------------------------------------------------------------
// small helpers

fn errno_name(e: i64) -> String {
    let s = match e as i32 {
        libc::EPERM => "EPERM",
        libc::ENOENT => "ENOENT",
        libc::EIO => "EIO",
        libc::EBADF => "EBADF",
        libc::EAGAIN => "EAGAIN",
        libc::ENOMEM => "ENOMEM",
        libc::EACCES => "EACCES",
        libc::EEXIST => "EEXIST",
        libc::EXDEV => "EXDEV",
        libc::EMLINK => "EMLINK",
        libc::ENOTDIR => "ENOTDIR",
        libc::EISDIR => "EISDIR",
        libc::EINVAL => "EINVAL",
        libc::ENFILE => "ENFILE",
        libc::EMFILE => "EMFILE",
        libc::ENOSPC => "ENOSPC",
        libc::EROFS => "EROFS",
        libc::ENAMETOOLONG => "ENAMETOOLONG",
        libc::ENOTEMPTY => "ENOTEMPTY",
        libc::ELOOP => "ELOOP",
        libc::ESTALE => "ESTALE",
        libc::EDQUOT => "EDQUOT",
        libc::EOPNOTSUPP => "EOPNOTSUPP",
        libc::ENOSYS => "ENOSYS",
        libc::EINTR => "EINTR",
        libc::EBUSY => "EBUSY",
        libc::EFBIG => "EFBIG",
        libc::ESPIPE => "ESPIPE",
        libc::EOVERFLOW => "EOVERFLOW",
        _ => return format!("E{}", e),
    };
    s.to_string()
}

fn errno_of_name(s: &str) -> i64 {
    (match s {
        "EPERM" => libc::EPERM,
        "ENOENT" => libc::ENOENT,
        "EIO" => libc::EIO,
        "EACCES" => libc::EACCES,
        "EEXIST" => libc::EEXIST,
        "EMFILE" => libc::EMFILE,
        "ENFILE" => libc::ENFILE,
        "ENOSPC" => libc::ENOSPC,
        "ESTALE" => libc::ESTALE,
        "EROFS" => libc::EROFS,
        "EDQUOT" => libc::EDQUOT,
        "ENOMEM" => libc::ENOMEM,
        "EINTR" => libc::EINTR,
        "ENOTDIR" => libc::ENOTDIR,
        "ENAMETOOLONG" => libc::ENAMETOOLONG,
        "EMLINK" => libc::EMLINK,
        "EXDEV" => libc::EXDEV,
        "ENOSYS" => libc::ENOSYS,
        "EOPNOTSUPP" => libc::EOPNOTSUPP,
        "EINVAL" => libc::EINVAL,
        "EBUSY" => libc::EBUSY,
        "EAGAIN" => libc::EAGAIN,
        // not an errno: the call transfers fewer bytes than asked for (a short write / short copy)
        "SHORT" => -7777,
        _ => libc::EIO,
    }) as i64
}

struct Rng(u64);
impl Rng {
    fn next(&mut self) -> u64 {
        // splitmix64
        self.0 = self.0.wrapping_add(0x9E3779B97F4A7C15);
        let mut z = self.0;
        z = (z ^ (z >> 30)).wrapping_mul(0xBF58476D1CE4E5B9);
        z = (z ^ (z >> 27)).wrapping_mul(0x94D049BB133111EB);
        z ^ (z >> 31)
    }
    fn below(&mut self, n: usize) -> usize {
        (self.next() % (n as u64)) as usize
    }
}

fn lexical_normalize(p: &str) -> String {
    let mut out: Vec<&str> = Vec::new();
    for comp in p.split('/') {
        match comp {
            "" | "." => {}
            ".." => {
                out.pop();
            }
            c => out.push(c),
        }
    }
    format!("/{}", out.join("/"))
}

// ---------------------------------------------------------------------------
// ptrace plumbing

fn pt(req: libc::c_uint, pid: i32, addr: usize, data: usize) -> i64 {
    unsafe { libc::ptrace(req, pid, addr, data) as i64 }
}

fn get_regs(pid: i32) -> libc::user_regs_struct {
    let mut regs: libc::user_regs_struct = unsafe { std::mem::zeroed() };
    pt(libc::PTRACE_GETREGS, pid, 0, &mut regs as *mut _ as usize);
    regs
}

fn set_regs(pid: i32, regs: &libc::user_regs_struct) {
    pt(libc::PTRACE_SETREGS, pid, 0, regs as *const _ as usize);
}

fn write_mem(pid: i32, addr: u64, data: &[u8]) -> bool {
    let local = libc::iovec { iov_base: data.as_ptr() as *mut libc::c_void, iov_len: data.len() };
    let remote = libc::iovec { iov_base: addr as *mut libc::c_void, iov_len: data.len() };
    let n = unsafe { libc::process_vm_writev(pid, &local, 1, &remote, 1, 0) };
    n == data.len() as isize
}

fn read_mem(pid: i32, addr: u64, len: usize) -> Vec<u8> {
    let mut buf = vec![0u8; len];
    if len == 0 || addr == 0 {
        return Vec::new();
    }
    let local = libc::iovec { iov_base: buf.as_mut_ptr() as *mut libc::c_void, iov_len: len };
    let remote = libc::iovec { iov_base: addr as *mut libc::c_void, iov_len: len };
    let n = unsafe { libc::process_vm_readv(pid, &local, 1, &remote, 1, 0) };
    if n < 0 {
        return Vec::new();
    }
    buf.truncate(n as usize);
    buf
}

fn read_cstr(pid: i32, addr: u64) -> Option<Vec<u8>> {
    if addr == 0 {
        return None;
    }
    let mut out = Vec::new();
    let mut a = addr;
    loop {
        // Read up to the end of the page to avoid faulting.
        let page_left = 4096 - (a % 4096) as usize;
        let chunk = read_mem(pid, a, page_left);
        if chunk.is_empty() {
            return Some(out);
        }
        if let Some(pos) = chunk.iter().position(|b| *b == 0) {
            out.extend_from_slice(&chunk[..pos]);
            return Some(out);
        }
        out.extend_from_slice(&chunk);
        a += chunk.len() as u64;
        if out.len() > 16384 {
            return Some(out);
        }
    }
}

/// 1 = syscall entry, 2 = syscall exit (PTRACE_GET_SYSCALL_INFO), 0 = unknown.
fn syscall_stop_op(pid: i32) -> u8 {
    let mut buf = [0u8; 128];
    let r = pt(0x420e, pid, buf.len(), buf.as_mut_ptr() as usize);
    if r <= 0 {
        return 0;
    }
    buf[0]
}

#[derive(Debug)]
enum Stop {
    Exited,
    Syscall,
    Signal(i32),
    Event,
}

fn wait_stop(pid: i32) -> Stop {
    let mut status: i32 = 0;
    loop {
        let r = unsafe { libc::waitpid(pid, &mut status, libc::__WALL) };
        if r < 0 {
            let e = std::io::Error::last_os_error();
            if e.raw_os_error() == Some(libc::EINTR) {
                continue;
            }
            return Stop::Exited;
        }
        break;
    }
    if libc::WIFEXITED(status) || libc::WIFSIGNALED(status) {
        return Stop::Exited;
    }
    if libc::WIFSTOPPED(status) {
        let sig = libc::WSTOPSIG(status);
        if sig == (libc::SIGTRAP | 0x80) {
            return Stop::Syscall;
        }
        if sig == libc::SIGTRAP && (status >> 16) != 0 {
            return Stop::Event;
        }
        return Stop::Signal(sig);
    }
    Stop::Event
}

// ---------------------------------------------------------------------------
// decoded calls

#[derive(Clone, Debug, Default)]
struct Loc {
    d: String,
    n: String,
    abs: String,
    under: bool,
    lex: bool, // the raw path had "..", "." or empty components: lexical resolution may differ from the kernel's
}

#[derive(Clone, Debug, Default)]
struct Call {
    nr: i64,
    name: &'static str, // normalised name
    raw: &'static str,
    path: Option<Loc>,
    path2: Option<Loc>,
    fd: Option<i32>,
    fd2: Option<i32>,
    fdloc: Option<Loc>,
    fdino: Option<String>,
    fd2ino: Option<String>,
    flags: Vec<&'static str>,
    cmode: Option<u32>,
    times: Option<(Value, Value)>,
    len: Option<i64>,
    off: Option<i64>,
    whence: Option<i64>,
    bufaddr: u64,
    rec: Option<Value>, // actor record (write to REC_FD)
    mutating: bool,
    lock: bool,
    nofollow: bool,
    pre_ino: Option<String>, // inode bound at `path` before the call (path-based calls)
}

struct Tracee {
    pid: i32,
    part: usize, // participant number (the "p" of events)
    alive: bool,
    started: bool,
    ended: bool,
    opi: i64,
    api: String,
    phase: String,
    world: bool,
    nrec: usize,       // recorded calls so far in library phases (crash/fault index)
    parked: Option<Call>,
    crash_at: Option<usize>,
    fault_at: Option<(usize, i64)>,
    /// persistent failure: every in-operation call of this name fails with this errno
    fault_all: Option<(String, i64)>,
    /// how many more matching calls fail (None: all of them)
    fault_left: Option<u64>,
    /// only path-based calls whose directory (as reported: "W", "W/.kismet_0000", ...) is one of these fail (empty: any)
    fault_dirs: Vec<String>,
    /// calls performed inside the current operation (a bound turns an endless retry loop into a "stuck" event)
    calls_in_op: usize,
    ops_done: usize,
    callnames: Vec<String>,
    own_temps: std::collections::HashSet<String>, // canonical "dir/name" of temp files this tracee created
}

struct World {
    top: String, // absolute path of the world top
}

struct RunCtx<'a> {
    world: World,
    out: &'a mut dyn Write,
    inos: HashMap<(u64, u64), String>,
    tnames: HashMap<String, String>,
    last_snap: String,
    content_cache: HashMap<(u64, u64, i64, i64, i64, i64), Value>,
    seq: u64,
    chunk: usize,
    snap_mode: String,
    emul_noatime: bool,
    emul_strict: bool,
    emul_gran: i64,
    last_read: Option<(usize, i32)>,
    nevents: u64,
    /// directory-listing emulation: getdents results are permuted into this order of (model-style) names; readdir order is
    /// unspecified, so every permutation is a legal kernel behaviour.  ["<reverse>"] reverses the kernel's order.
    emul_listorder: Option<Vec<String>>,
    /// real temp-file name -> the model's name for it ("t<participant>x<operation index>")
    tmodel: HashMap<String, String>,
}

impl<'a> RunCtx<'a> {
    fn ino_id(&mut self, dev: u64, ino: u64) -> String {
        let n = self.inos.len() + 1;
        self.inos.entry((dev, ino)).or_insert_with(|| format!("i{}", n)).clone()
    }

    fn canon_name(&mut self, name: &str) -> String {
        // tempfile names: ".tmp" + 6 random alphanumerics
        if name.len() == 10 && name.starts_with(".tmp") {
            let n = self.tnames.len() + 1;
            return self.tnames.entry(name.to_string()).or_insert_with(|| format!("t{}", n)).clone();
        }
        name.to_string()
    }

    fn loc_of_abs(&mut self, abs: &str) -> Loc {
        // the kernel's view of the path when its parent exists (symbolic links resolved before any ".."), the lexical one otherwise
        let resolved = if abs.contains("/../") || abs.contains("/./") {
            // resolve the longest existing prefix really; what follows it must then be free of ".."
            let comps: Vec<&str> = abs.split('/').filter(|c| !c.is_empty()).collect();
            let mut out = None;
            for cut in (1..=comps.len()).rev() {
                let prefix = format!("/{}", comps[..cut].join("/"));
                if let Ok(real) = std::fs::canonicalize(&prefix) {
                    let rest = &comps[cut..];
                    if rest.iter().all(|c| *c != ".." && *c != ".") {
                        let mut r = real.to_string_lossy().to_string();
                        for c in rest {
                            r.push('/');
                            r.push_str(c);
                        }
                        out = Some(r);
                    }
                    break;
                }
            }
            out
        } else {
            None
        };
        let really = resolved.is_some();
        let abs_owned = resolved.unwrap_or_else(|| abs.to_string());
        let abs: &str = &abs_owned;
        let norm = lexical_normalize(abs);
        let top = self.world.top.clone();
        if norm == top {
            return Loc { d: "".into(), n: ".".into(), abs: norm, under: true, lex: false };
        }
        if let Some(rest) = norm.strip_prefix(&(top.clone() + "/")) {
            let (d, n) = match rest.rfind('/') {
                Some(i) => (rest[..i].to_string(), rest[i + 1..].to_string()),
                None => (".".to_string(), rest.to_string()),
            };
            let d = d
                .split('/')
                .map(|c| self.canon_name(c))
                .collect::<Vec<_>>()
                .join("/");
            let n = self.canon_name(&n);
            let lex = !really && (abs.contains("/../") || abs.ends_with("/..") || abs.ends_with("/.") || abs.ends_with('/') || abs.contains("//") || abs.contains("/./"));
            return Loc { d, n, abs: norm, under: true, lex };
        }
        // Is the world top below this path (create_dir_all walking up)?
        Loc { d: "OUTSIDE".into(), n: norm.clone(), abs: norm, under: false, lex: false }
    }

    fn emit(&mut self, v: Value) {
        // TLC's Json module has no null: drop null members.
        fn strip(v: Value) -> Value {
            match v {
                Value::Object(o) => Value::Object(o.into_iter().filter(|(_, x)| !x.is_null()).map(|(k, x)| (k, strip(x))).collect()),
                Value::Array(a) => Value::Array(a.into_iter().map(|x| if x.is_null() { json!("null") } else { strip(x) }).collect()),
                other => other,
            }
        }
        let mut v = strip(v);
        self.seq += 1;
        v["seq"] = json!(self.seq);
        let _ = writeln!(self.out, "{}", v);
        self.nevents += 1;
    }
}

fn proc_fd_target(pid: i32, fd: i32) -> Option<String> {
    let p = format!("/proc/{}/fd/{}", pid, fd);
    std::fs::read_link(&p).ok().map(|t| {
        let s = t.to_string_lossy().to_string();
        s.strip_suffix(" (deleted)").map(|x| x.to_string()).unwrap_or(s)
    })
}

fn proc_fd_ino(pid: i32, fd: i32) -> Option<(u64, u64, u32)> {
    let p = format!("/proc/{}/fd/{}", pid, fd);
    std::fs::metadata(&p).ok().map(|m| (m.dev(), m.ino(), m.mode()))
}

fn open_flags(f: u64) -> Vec<&'static str> {
    let mut v = Vec::new();
    match f & 3 {
        0 => v.push("RDONLY"),
        1 => v.push("WRONLY"),
        _ => v.push("RDWR"),
    }
    let table: [(u64, &'static str); 9] = [
        (libc::O_CREAT as u64, "CREAT"),
        (libc::O_EXCL as u64, "EXCL"),
        (libc::O_TRUNC as u64, "TRUNC"),
        (libc::O_APPEND as u64, "APPEND"),
        (libc::O_DIRECTORY as u64, "DIRECTORY"),
        (libc::O_NOFOLLOW as u64, "NOFOLLOW"),
        (libc::O_CLOEXEC as u64, "CLOEXEC"),
        (libc::O_NOATIME as u64, "NOATIME"),
        (libc::O_PATH as u64, "PATH"),
    ];
    for (bit, name) in table.iter() {
        if f & bit == *bit {
            v.push(*name);
        }
    }
    if f & (libc::O_TMPFILE as u64) == libc::O_TMPFILE as u64 {
        v.push("TMPFILE");
    }
    v
}

fn timespec_val(sec: i64, nsec: i64) -> Value {
    if nsec == libc::UTIME_NOW {
        json!("now")
    } else if nsec == libc::UTIME_OMIT {
        json!("omit")
    } else {
        json!([sec, nsec])
    }
}

/// Decodes a system call at its entry stop.  Returns None for calls the
/// tracer never records.
fn decode_entry(pid: i32, regs: &libc::user_regs_struct, ctx: &mut RunCtx) -> Option<Call> {
    let nr = regs.orig_rax as i64;
    let a = [regs.rdi, regs.rsi, regs.rdx, regs.r10, regs.r8, regs.r9];
    let mut c = Call { nr, ..Default::default() };
    let resolve = |ctx: &mut RunCtx, dfd: i64, paddr: u64| -> Option<Loc> {
        let bytes = read_cstr(pid, paddr)?;
        let s = String::from_utf8_lossy(&bytes).to_string();
        let abs = if s.starts_with('/') {
            s
        } else {
            let base = if dfd as i32 == libc::AT_FDCWD {
                std::fs::read_link(format!("/proc/{}/cwd", pid)).ok()?.to_string_lossy().to_string()
            } else {
                proc_fd_target(pid, dfd as i32)?
            };
            if s.is_empty() {
                base
            } else {
                format!("{}/{}", base, s)
            }
        };
        Some(ctx.loc_of_abs(&abs))
    };
    let fdinfo = |ctx: &mut RunCtx, c: &mut Call, fd: i64| {
        c.fd = Some(fd as i32);
        if let Some(t) = proc_fd_target(pid, fd as i32) {
            if t.starts_with('/') {
                c.fdloc = Some(ctx.loc_of_abs(&t));
            }
        }
        if c.fdloc.as_ref().map(|l| l.under).unwrap_or(false) {
            if let Some((dev, ino, mode)) = proc_fd_ino(pid, fd as i32) {
                if mode & libc::S_IFMT != libc::S_IFDIR {
                    c.fdino = Some(ctx.ino_id(dev, ino));
                }
            }
        }
    };
    const AT_FDCWD: i64 = libc::AT_FDCWD as i64;
    match nr {
        libc::SYS_write | libc::SYS_pwrite64 | libc::SYS_writev => {
            let fd = a[0] as i64;
            if fd as i32 == REC_FD && nr == libc::SYS_write {
                let data = read_mem(pid, a[1], a[2] as usize);
                let text = String::from_utf8_lossy(&data).to_string();
                c.name = "rec";
                c.raw = "write";
                c.rec = serde_json::from_str(text.trim()).ok();
                return Some(c);
            }
            c.name = "write";
            c.raw = if nr == libc::SYS_pwrite64 { "pwrite64" } else if nr == libc::SYS_writev { "writev" } else { "write" };
            fdinfo(ctx, &mut c, fd);
            c.len = Some(a[2] as i64);
            c.mutating = true;
        }
        libc::SYS_read | libc::SYS_pread64 | libc::SYS_readv => {
            c.name = "read";
            c.raw = "read";
            fdinfo(ctx, &mut c, a[0] as i64);
            c.len = Some(a[2] as i64);
        }
        libc::SYS_open | libc::SYS_creat => {
            c.name = "open";
            c.raw = "open";
            c.path = resolve(ctx, AT_FDCWD, a[0]);
            let fl = if nr == libc::SYS_creat { (libc::O_CREAT | libc::O_WRONLY | libc::O_TRUNC) as u64 } else { a[1] };
            c.flags = open_flags(fl);
            c.cmode = Some((if nr == libc::SYS_creat { a[1] } else { a[2] }) as u32 & 0o7777);
        }
        libc::SYS_openat => {
            c.name = "open";
            c.raw = "openat";
            c.path = resolve(ctx, a[0] as i64, a[1]);
            c.flags = open_flags(a[2]);
            c.cmode = Some(a[3] as u32 & 0o7777);
        }
        437 => {
            // openat2(dfd, path, struct open_how*, size)
            c.name = "open";
            c.raw = "openat2";
            c.path = resolve(ctx, a[0] as i64, a[1]);
            let how = read_mem(pid, a[2], 16);
            if how.len() == 16 {
                let fl = u64::from_le_bytes(how[0..8].try_into().unwrap());
                let md = u64::from_le_bytes(how[8..16].try_into().unwrap());
                c.flags = open_flags(fl);
                c.cmode = Some(md as u32 & 0o7777);
            }
        }
        libc::SYS_close => {
            c.name = "close";
            c.raw = "close";
            fdinfo(ctx, &mut c, a[0] as i64);
        }
        libc::SYS_lseek => {
            c.name = "lseek";
            c.raw = "lseek";
            fdinfo(ctx, &mut c, a[0] as i64);
            c.off = Some(a[1] as i64);
            c.whence = Some(a[2] as i64);
        }
        libc::SYS_copy_file_range => {
            c.name = "copy";
            c.raw = "copy_file_range";
            fdinfo(ctx, &mut c, a[2] as i64);
            c.fd2 = Some(a[0] as i32);
            if let Some((dev, ino, _)) = proc_fd_ino(pid, a[0] as i32) {
                c.fd2ino = Some(ctx.ino_id(dev, ino));
            }
            c.len = Some(a[4] as i64);
            c.mutating = true;
        }
        libc::SYS_sendfile => {
            c.name = "copy";
            c.raw = "sendfile";
            fdinfo(ctx, &mut c, a[0] as i64);
            c.fd2 = Some(a[1] as i32);
            if let Some((dev, ino, _)) = proc_fd_ino(pid, a[1] as i32) {
                c.fd2ino = Some(ctx.ino_id(dev, ino));
            }
            c.len = Some(a[3] as i64);
            c.mutating = true;
        }
        libc::SYS_fsync | libc::SYS_fdatasync | libc::SYS_sync_file_range => {
            c.name = "fsync";
            c.raw = match nr {
                libc::SYS_fsync => "fsync",
                libc::SYS_fdatasync => "fdatasync",
                _ => "sync_file_range",
            };
            fdinfo(ctx, &mut c, a[0] as i64);
        }
        libc::SYS_ftruncate | libc::SYS_fallocate => {
            c.name = "truncate";
            c.raw = "ftruncate";
            fdinfo(ctx, &mut c, a[0] as i64);
            c.len = Some(a[1] as i64);
            c.mutating = true;
        }
        libc::SYS_truncate => {
            c.name = "truncate";
            c.raw = "truncate";
            c.path = resolve(ctx, AT_FDCWD, a[0]);
            c.len = Some(a[1] as i64);
            c.mutating = true;
        }
        libc::SYS_fchmod => {
            c.name = "chmod";
            c.raw = "fchmod";
            fdinfo(ctx, &mut c, a[0] as i64);
            c.cmode = Some(a[1] as u32 & 0o7777);
            c.mutating = true;
        }
        libc::SYS_chmod => {
            c.name = "chmod";
            c.raw = "chmod";
            c.path = resolve(ctx, AT_FDCWD, a[0]);
            c.cmode = Some(a[1] as u32 & 0o7777);
            c.mutating = true;
        }
        libc::SYS_fchmodat | 452 => {
            c.name = "chmod";
            c.raw = "fchmodat";
            c.path = resolve(ctx, a[0] as i64, a[1]);
            c.cmode = Some(a[2] as u32 & 0o7777);
            c.mutating = true;
        }
        libc::SYS_chown | libc::SYS_lchown | libc::SYS_fchownat => {
            c.name = "chown";
            c.raw = "chown";
            c.path = if nr == libc::SYS_fchownat { resolve(ctx, a[0] as i64, a[1]) } else { resolve(ctx, AT_FDCWD, a[0]) };
            c.mutating = true;
        }
        libc::SYS_fchown => {
            c.name = "chown";
            c.raw = "fchown";
            fdinfo(ctx, &mut c, a[0] as i64);
            c.mutating = true;
        }
        libc::SYS_utimensat => {
            c.name = "utimens";
            c.raw = "utimensat";
            if a[1] == 0 {
                fdinfo(ctx, &mut c, a[0] as i64);
            } else {
                c.path = resolve(ctx, a[0] as i64, a[1]);
                c.nofollow = (a[3] as i32 & libc::AT_SYMLINK_NOFOLLOW) != 0;
            }
            if a[2] == 0 {
                c.times = Some((json!("now"), json!("now")));
            } else {
                let t = read_mem(pid, a[2], 32);
                if t.len() == 32 {
                    let f = |o: usize| i64::from_le_bytes(t[o..o + 8].try_into().unwrap());
                    c.times = Some((timespec_val(f(0), f(8)), timespec_val(f(16), f(24))));
                }
            }
            c.mutating = true;
        }
        libc::SYS_utimes | libc::SYS_utime | libc::SYS_futimesat => {
            c.name = "utimens";
            c.raw = "utimes";
            c.path = if nr == libc::SYS_futimesat { resolve(ctx, a[0] as i64, a[1]) } else { resolve(ctx, AT_FDCWD, a[0]) };
            c.times = Some((json!("unknown"), json!("unknown")));
            c.mutating = true;
        }
        libc::SYS_statx => {
            c.name = "stat";
            c.raw = "statx";
            let p = read_cstr(pid, a[1]).unwrap_or_default();
            if p.is_empty() && (a[2] as i32 & libc::AT_EMPTY_PATH) != 0 {
                fdinfo(ctx, &mut c, a[0] as i64);
            } else {
                c.path = resolve(ctx, a[0] as i64, a[1]);
                c.nofollow = (a[2] as i32 & libc::AT_SYMLINK_NOFOLLOW) != 0;
            }
            c.bufaddr = a[4];
        }
        libc::SYS_newfstatat => {
            c.name = "stat";
            c.raw = "newfstatat";
            let p = read_cstr(pid, a[1]).unwrap_or_default();
            if p.is_empty() && (a[3] as i32 & libc::AT_EMPTY_PATH) != 0 {
                fdinfo(ctx, &mut c, a[0] as i64);
            } else {
                c.path = resolve(ctx, a[0] as i64, a[1]);
                c.nofollow = (a[3] as i32 & libc::AT_SYMLINK_NOFOLLOW) != 0;
            }
            c.bufaddr = a[2];
        }
        libc::SYS_fstat => {
            c.name = "stat";
            c.raw = "fstat";
            fdinfo(ctx, &mut c, a[0] as i64);
            c.bufaddr = a[1];
        }
        libc::SYS_stat | libc::SYS_lstat => {
            c.name = "stat";
            c.raw = if nr == libc::SYS_stat { "stat" } else { "lstat" };
            c.path = resolve(ctx, AT_FDCWD, a[0]);
            c.nofollow = nr == libc::SYS_lstat;
            c.bufaddr = a[1];
        }
        libc::SYS_access | libc::SYS_faccessat | 439 => {
            c.name = "access";
            c.raw = "access";
            c.path = if nr == libc::SYS_access { resolve(ctx, AT_FDCWD, a[0]) } else { resolve(ctx, a[0] as i64, a[1]) };
        }
        libc::SYS_getdents64 | libc::SYS_getdents => {
            c.name = "getdents";
            c.raw = "getdents64";
            fdinfo(ctx, &mut c, a[0] as i64);
            c.bufaddr = a[1];
        }
        libc::SYS_rename | libc::SYS_renameat | libc::SYS_renameat2 => {
            c.name = "rename";
            c.raw = "rename";
            if nr == libc::SYS_rename {
                c.path = resolve(ctx, AT_FDCWD, a[0]);
                c.path2 = resolve(ctx, AT_FDCWD, a[1]);
            } else {
                c.path = resolve(ctx, a[0] as i64, a[1]);
                c.path2 = resolve(ctx, a[2] as i64, a[3]);
                if nr == libc::SYS_renameat2 && a[4] != 0 {
                    c.flags = vec!["RENAME_FLAGS"];
                }
            }
            c.mutating = true;
        }
        libc::SYS_link | libc::SYS_linkat => {
            c.name = "link";
            c.raw = "link";
            if nr == libc::SYS_link {
                c.path = resolve(ctx, AT_FDCWD, a[0]);
                c.path2 = resolve(ctx, AT_FDCWD, a[1]);
            } else {
                c.path = resolve(ctx, a[0] as i64, a[1]);
                c.path2 = resolve(ctx, a[2] as i64, a[3]);
            }
            c.mutating = true;
        }
        libc::SYS_symlink | libc::SYS_symlinkat => {
            c.name = "symlink";
            c.raw = "symlink";
            c.path = if nr == libc::SYS_symlink { resolve(ctx, AT_FDCWD, a[1]) } else { resolve(ctx, a[1] as i64, a[2]) };
            c.mutating = true;
        }
        libc::SYS_unlink => {
            c.name = "unlink";
            c.raw = "unlink";
            c.path = resolve(ctx, AT_FDCWD, a[0]);
            c.mutating = true;
        }
        libc::SYS_rmdir => {
            c.name = "rmdir";
            c.raw = "rmdir";
            c.path = resolve(ctx, AT_FDCWD, a[0]);
            c.mutating = true;
        }
        libc::SYS_unlinkat => {
            c.name = if (a[2] as i32 & libc::AT_REMOVEDIR) != 0 { "rmdir" } else { "unlink" };
            c.raw = "unlinkat";
            c.path = resolve(ctx, a[0] as i64, a[1]);
            c.mutating = true;
        }
        libc::SYS_mkdir | libc::SYS_mkdirat => {
            c.name = "mkdir";
            c.raw = "mkdir";
            if nr == libc::SYS_mkdir {
                c.path = resolve(ctx, AT_FDCWD, a[0]);
                c.cmode = Some(a[1] as u32 & 0o7777);
            } else {
                c.path = resolve(ctx, a[0] as i64, a[1]);
                c.cmode = Some(a[2] as u32 & 0o7777);
            }
            c.mutating = true;
        }
        libc::SYS_flock => {
            c.name = "lock";
            c.raw = "flock";
            fdinfo(ctx, &mut c, a[0] as i64);
            c.lock = true;
        }
        libc::SYS_fcntl => {
            let cmd = a[1] as i32;
            // F_GETLK 5, F_SETLK 6, F_SETLKW 7, F_OFD_GETLK 36, F_OFD_SETLK 37, F_OFD_SETLKW 38
            if [5, 6, 7, 36, 37, 38].contains(&cmd) {
                c.name = "lock";
                c.raw = "fcntl";
                fdinfo(ctx, &mut c, a[0] as i64);
                c.lock = true;
            } else if cmd == libc::F_DUPFD || cmd == libc::F_DUPFD_CLOEXEC {
                c.name = "dup";
                c.raw = "fcntl_dupfd";
                fdinfo(ctx, &mut c, a[0] as i64);
            } else {
                return None;
            }
        }
        libc::SYS_dup | libc::SYS_dup2 | libc::SYS_dup3 => {
            c.name = "dup";
            c.raw = "dup";
            fdinfo(ctx, &mut c, a[0] as i64);
        }
        _ => return None,
    }
    if c.name == "open" {
        let fl = &c.flags;
        c.mutating = fl.contains(&"CREAT") || fl.contains(&"WRONLY") || fl.contains(&"RDWR") || fl.contains(&"TRUNC");
    }
    Some(c)
}

/// Is this call recorded?  (Only called once the actor has emitted `start`.)
fn is_interesting(c: &Call) -> bool {
    if c.name == "rec" || c.lock {
        return true;
    }
    let under = |l: &Option<Loc>| l.as_ref().map(|x| x.under).unwrap_or(false);
    if under(&c.path) || under(&c.path2) || under(&c.fdloc) {
        return true;
    }
    // Mutations anywhere are recorded so that an effect outside the world is seen.
    if c.mutating && (c.path.is_some() || c.path2.is_some()) {
        // ... but not the actor's own stdout/stderr etc. (fd-based, no path).
        return true;
    }
    false
}

fn is_private_dir(d: &str) -> bool {
    d.ends_with(".kismet_temp") || d == "SRC" || d.starts_with("SRC/") || d == "TMP" || d.starts_with("TMP/")
}

/// Decision points: calls whose effect or result depends on / is visible to
/// other participants.  Path-based calls on shared directories, and the
/// fd-based calls that read or change metadata of a published inode or list
/// a directory.
fn is_decision_point(c: &Call, phase: &str, own: &std::collections::HashSet<String>) -> bool {
    if !(phase == "lib" || phase == "cb" || phase == "prep") {
        return false;
    }
    if c.name == "rec" {
        return false;
    }
    // A file in a temporary directory is private only to the participant that created it: a peer's cleanup scan
    // stats (and may unlink) other participants' temporary files.
    let shared = |l: &Option<Loc>| {
        l.as_ref()
            .map(|x| x.under && (!is_private_dir(&x.d) || (x.d.ends_with(".kismet_temp") && !own.contains(&format!("{}/{}", x.d, x.n)))))
            .unwrap_or(false)
    };
    if c.path.is_some() || c.path2.is_some() {
        // creating a file in a (shared) temporary directory conflicts with a peer's sweep of that directory (listing, removal of the empty
        // directory): the creation itself is a scheduling point even though the new file is the creator's own
        if c.name == "open" && c.flags.contains(&"CREAT") {
            if let Some(l) = &c.path {
                if l.under && l.d.ends_with(".kismet_temp") {
                    return true;
                }
            }
        }
        return shared(&c.path) || shared(&c.path2);
    }
    // fd-based
    match c.name {
        // (data calls on a file that is NOT this participant's own temp file are scheduling points too: a shared
        // temporary or published file being written is visible to everybody)
        "utimens" | "stat" | "getdents" | "chmod" | "truncate" | "write" | "copy" => shared(&c.fdloc),
        _ => false,
    }
}

// ---------------------------------------------------------------------------
// snapshots

fn snapshot(ctx: &mut RunCtx) -> Value {
    let top = PathBuf::from(&ctx.world.top);
    let mut ents: Map<String, Value> = Map::new();
    let mut inos: Map<String, Value> = Map::new();
    fn walk(ctx: &mut RunCtx, dir: &Path, id: &str, ents: &mut Map<String, Value>, inos: &mut Map<String, Value>, depth: usize) {
        let mut here: Map<String, Value> = Map::new();
        let rd = match std::fs::read_dir(dir) {
            Ok(r) => r,
            Err(_) => return,
        };
        let mut subs = Vec::new();
        for e in rd.flatten() {
            let name = e.file_name().to_string_lossy().to_string();
            let cname = ctx.canon_name(&name);
            let md = match std::fs::symlink_metadata(e.path()) {
                Ok(m) => m,
                Err(_) => continue,
            };
            if md.is_dir() {
                here.insert(cname.clone(), json!("DIR"));
                if depth < 8 {
                    let sub = if id == "." { cname.clone() } else { format!("{}/{}", id, cname) };
                    subs.push((e.path(), sub));
                }
            } else {
                let iid = ctx.ino_id(md.dev(), md.ino());
                here.insert(cname, json!(iid.clone()));
                if !inos.contains_key(&iid) {
                    let key = (md.dev(), md.ino(), md.size() as i64, md.mtime(), md.mtime_nsec(), md.ctime() * 1_000_000_000 + md.ctime_nsec());
                    let content = if md.file_type().is_symlink() {
                        json!({"kind": "symlink"})
                    } else if let Some(c) = ctx.content_cache.get(&key) {
                        c.clone()
                    } else {
                        let c = read_noatime(&e.path()).map(|d| decode(&d, ctx.chunk)).unwrap_or(json!({"kind": "unreadable"}));
                        ctx.content_cache.insert(key, c.clone());
                        c
                    };
                    inos.insert(
                        iid,
                        // (a symbolic link's atime moves whenever any path is resolved through it -- by the tracer too: not reported)
                        if md.file_type().is_symlink() {
                            json!({"mode": md.mode() & 0o7777, "at": [md.mtime(), md.mtime_nsec()], "mt": [md.mtime(), md.mtime_nsec()],
                                   "nlink": md.nlink(), "c": content})
                        } else {
                            json!({"mode": md.mode() & 0o7777, "at": [md.atime(), md.atime_nsec()], "mt": [md.mtime(), md.mtime_nsec()],
                                   "nlink": md.nlink(), "c": content})
                        },
                    );
                }
            }
        }
        ents.insert(id.to_string(), Value::Object(here));
        for (p, sub) in subs {
            walk(ctx, &p, &sub, ents, inos, depth + 1);
        }
    }
    walk(ctx, &top, ".", &mut ents, &mut inos, 0);
    json!({"ents": ents, "inos": inos})
}

fn read_noatime(p: &Path) -> Option<Vec<u8>> {
    let c = CString::new(p.as_os_str().as_bytes()).ok()?;
    let fd = unsafe { libc::open(c.as_ptr(), libc::O_RDONLY | libc::O_NOATIME | libc::O_CLOEXEC | libc::O_NOFOLLOW) };
    if fd < 0 {
        return None;
    }
    let mut out = Vec::new();
    let mut buf = vec![0u8; 65536];
    loop {
        let n = unsafe { libc::read(fd, buf.as_mut_ptr() as *mut libc::c_void, buf.len()) };
        if n <= 0 {
            break;
        }
        out.extend_from_slice(&buf[..n as usize]);
        if out.len() > (64 << 20) {
            break;
        }
    }
    unsafe { libc::close(fd) };
    Some(out)
}

fn set_times_raw(p: &Path, at: Option<(i64, i64)>, mt: Option<(i64, i64)>) {
    if let Ok(c) = CString::new(p.as_os_str().as_bytes()) {
        let conv = |t: Option<(i64, i64)>| match t {
            Some((s, n)) => libc::timespec { tv_sec: s, tv_nsec: n },
            None => libc::timespec { tv_sec: 0, tv_nsec: libc::UTIME_OMIT },
        };
        let ts = [conv(at), conv(mt)];
        unsafe { libc::utimensat(libc::AT_FDCWD, c.as_ptr(), ts.as_ptr(), libc::AT_SYMLINK_NOFOLLOW) };
    }
}

/// Coarse-granularity emulation: floor (atime, mtime) of every regular file
/// under the world to multiples of `g` seconds.
fn apply_gran(ctx: &RunCtx, g: i64) {
    fn walk(dir: &Path, g: i64, depth: usize) {
        if let Ok(rd) = std::fs::read_dir(dir) {
            for e in rd.flatten() {
                if let Ok(md) = std::fs::symlink_metadata(e.path()) {
                    if md.is_dir() {
                        if depth < 8 {
                            walk(&e.path(), g, depth + 1);
                        }
                    } else if md.is_file() {
                        let fl = |s: i64| s - s.rem_euclid(g);
                        let (a, an, m, mn) = (md.atime(), md.atime_nsec(), md.mtime(), md.mtime_nsec());
                        if an != 0 || mn != 0 || a % g != 0 || m % g != 0 {
                            set_times_raw(&e.path(), Some((fl(a), 0)), Some((fl(m), 0)));
                        }
                    }
                }
            }
        }
    }
    walk(Path::new(&ctx.world.top), g, 0);
}

fn emit_snap_if_changed(ctx: &mut RunCtx, ev: &mut Value) {
    if ctx.snap_mode == "none" {
        return;
    }
    if ctx.emul_gran > 0 {
        apply_gran(ctx, ctx.emul_gran);
    }
    let s = snapshot(ctx);
    let text = s.to_string();
    if text != ctx.last_snap {
        ctx.last_snap = text;
        ev["snap"] = s;
    }
}

// ---------------------------------------------------------------------------
// running tracees

fn now_pair() -> Value {
    let mut ts: libc::timespec = unsafe { std::mem::zeroed() };
    unsafe { libc::clock_gettime(libc::CLOCK_REALTIME, &mut ts) };
    json!([ts.tv_sec, ts.tv_nsec])
}

fn loc_json(l: &Loc) -> Value {
    if l.lex {
        json!({"d": l.d, "n": l.n, "lex": true})
    } else {
        json!({"d": l.d, "n": l.n})
    }
}

fn spawn_actor(actor: &str, spec: &Value) -> i32 {
    let spec_text = spec.to_string();
    let prog = CString::new(actor).unwrap();
    let arg1 = CString::new(spec_text).unwrap();
    let devnull = CString::new("/dev/null").unwrap();
    let pid = unsafe { libc::fork() };
    if pid == 0 {
        unsafe {
            let fd = libc::open(devnull.as_ptr(), libc::O_WRONLY);
            libc::dup2(fd, REC_FD);
            libc::close(fd);
            libc::ptrace(libc::PTRACE_TRACEME, 0, 0, 0);
            libc::raise(libc::SIGSTOP);
            let argv = [prog.as_ptr(), arg1.as_ptr(), std::ptr::null()];
            libc::execv(prog.as_ptr(), argv.as_ptr());
            libc::_exit(127);
        }
    }
    // parent
    match wait_stop(pid) {
        Stop::Signal(_) => {}
        other => {
            eprintln!("kv-tracer: unexpected first stop {:?}", other);
        }
    }
    let opts = libc::PTRACE_O_TRACESYSGOOD | libc::PTRACE_O_EXITKILL | libc::PTRACE_O_TRACEEXEC;
    pt(libc::PTRACE_SETOPTIONS, pid, 0, opts as usize);
    pid
}

enum Adv {
    Parked,
    Finished,
    Crashed,
}

/// Lets tracee `t` run: completes the parked call (if any), then continues up
/// to the entry of its next decision point (sched mode) or to its end.
static ALLPOINTS: std::sync::atomic::AtomicBool = std::sync::atomic::AtomicBool::new(false);
/// bound on the system calls of one operation (job field "op_call_limit"; the default is far above any real operation here)
static OP_CALL_LIMIT: std::sync::atomic::AtomicUsize = std::sync::atomic::AtomicUsize::new(200_000);
/// replaying a model behaviour: the application's own calls inside an operation are scheduling steps too
static FOLLOWING: std::sync::atomic::AtomicBool = std::sync::atomic::AtomicBool::new(false);

fn advance(t: &mut Tracee, ctx: &mut RunCtx, sched: bool, stop_after_ret: bool) -> Adv {
    let pid = t.pid;
    let mut pending: Option<Call> = t.parked.take();
    loop {
        // 1. if we hold a call at its entry stop, perform it.
        if let Some(mut call) = pending.take() {
            let counted = call.name != "rec" && !t.world && (t.phase == "lib" || t.phase == "cb" || t.phase == "prep");
            if counted {
                t.nrec += 1;
                // index names: "prep:<call>" for the application's own calls (never faulted), "closedir" for
                // closing a directory stream (std itself panics if that fails; it cannot fail on Linux)
                let cname = if t.phase == "prep" {
                    format!("prep:{}", call.name)
                } else if call.name == "close" && call.fdino.is_none() {
                    "closedir".to_string()
                } else {
                    call.name.to_string()
                };
                t.callnames.push(cname);
                if t.crash_at == Some(t.nrec) {
                    unsafe { libc::kill(pid, libc::SIGKILL) };
                    loop {
                        if let Stop::Exited = wait_stop(pid) {
                            break;
                        }
                    }
                    t.alive = false;
                    let mut ev = json!({"e": "crash", "p": t.part, "opi": t.opi, "api": t.api, "k": t.nrec,
                                        "before": call.name, "ph": t.phase});
                    if let Some(l) = &call.path {
                        ev["path"] = loc_json(l);
                    }
                    emit_snap_if_changed(ctx, &mut ev);
                    ctx.emit(ev);
                    return Adv::Crashed;
                }
            }
            let mut injected: Option<i64> = None;
            if counted {
                t.calls_in_op += 1;
                if t.calls_in_op > OP_CALL_LIMIT.load(std::sync::atomic::Ordering::Relaxed) {
                    // the operation does not come back: report it and stop the participant
                    let ev = json!({"e": "stuck", "p": t.part, "opi": t.opi, "api": t.api, "steps": t.calls_in_op, "call": call.name});
                    ctx.emit(ev);
                    unsafe { libc::kill(pid, libc::SIGKILL) };
                    loop {
                        if let Stop::Exited = wait_stop(pid) {
                            break;
                        }
                    }
                    t.alive = false;
                    return Adv::Crashed;
                }
                if let Some((name, errno)) = &t.fault_all {
                    let dir_ok = t.fault_dirs.is_empty() || call.path.as_ref().map(|l| t.fault_dirs.contains(&l.d)).unwrap_or(false);
                    if call.name == name && dir_ok && (t.phase == "lib" || t.phase == "cb") && t.fault_left != Some(0) {
                        if let Some(n) = t.fault_left {
                            t.fault_left = Some(n - 1);
                        }
                        if *errno == -7777 {
                            // short transfer: ask the kernel for half of the bytes; the call really happens and really returns that count
                            let mut regs = get_regs(pid);
                            match call.raw {
                                "write" | "pwrite64" => regs.rdx = std::cmp::max(1, regs.rdx / 2),
                                "copy_file_range" => regs.r8 = std::cmp::max(1, regs.r8 / 2),
                                "sendfile" => regs.r10 = std::cmp::max(1, regs.r10 / 2),
                                _ => {}
                            }
                            set_regs(pid, &regs);
                        } else {
                        let mut regs = get_regs(pid);
                        regs.orig_rax = u64::MAX; // skip the call
                        set_regs(pid, &regs);
                        injected = Some(*errno);
                        }
                    }
                }
                if let Some((at, errno)) = t.fault_at {
                    if at == t.nrec {
                        let mut regs = get_regs(pid);
                        regs.orig_rax = u64::MAX; // skip the call
                        set_regs(pid, &regs);
                        injected = Some(errno);
                    }
                }
            }
            // no-atime emulation: OR O_NOATIME into opens of existing regular files
            if ctx.emul_noatime && call.name == "open" && call.raw == "openat" && injected.is_none() {
                let under = call.path.as_ref().map(|l| l.under).unwrap_or(false);
                let fl = &call.flags;
                if under && !fl.contains(&"DIRECTORY") && !fl.contains(&"CREAT") && !fl.contains(&"PATH") && !fl.contains(&"TMPFILE") {
                    let mut regs = get_regs(pid);
                    regs.rdx |= libc::O_NOATIME as u64;
                    set_regs(pid, &regs);
                }
            }
            // inode bound at the path before the call (for unlink/rename/link/chmod/utimens by path)
            if let Some(l) = &call.path {
                if l.under {
                    if let Ok(md) = std::fs::symlink_metadata(&l.abs) {
                        if !md.is_dir() {
                            call.pre_ino = Some(ctx.ino_id(md.dev(), md.ino()));
                        }
                    }
                }
            }
            pt(libc::PTRACE_SYSCALL, pid, 0, 0);
            loop {
                match wait_stop(pid) {
                    Stop::Syscall => {
                        if syscall_stop_op(pid) == 2 {
                            break;
                        }
                        eprintln!("kv-tracer: expected syscall exit stop");
                        pt(libc::PTRACE_SYSCALL, pid, 0, 0);
                    }
                    Stop::Exited => {
                        t.alive = false;
                        return Adv::Finished;
                    }
                    Stop::Signal(sig) => {
                        pt(libc::PTRACE_SYSCALL, pid, 0, sig as usize);
                    }
                    Stop::Event => {
                        pt(libc::PTRACE_SYSCALL, pid, 0, 0);
                    }
                }
            }
            let mut regs = get_regs(pid);
            if let Some(errno) = injected {
                regs.rax = (-errno) as u64;
                set_regs(pid, &regs);
            }
            let rv = regs.rax as i64;
            let done_op = record_exit(t, ctx, &call, rv, injected.is_some(), &regs);
            if done_op && stop_after_ret {
                return Adv::Parked;
            }
        }
        // 2. run to the next syscall entry.
        pt(libc::PTRACE_SYSCALL, pid, 0, 0);
        let stop = wait_stop(pid);
        match stop {
            Stop::Exited => {
                t.alive = false;
                return Adv::Finished;
            }
            Stop::Signal(sig) => {
                // forward the signal and keep going
                pt(libc::PTRACE_SYSCALL, pid, 0, sig as usize);
                match wait_stop(pid) {
                    Stop::Exited => {
                        t.alive = false;
                        return Adv::Finished;
                    }
                    Stop::Syscall => { /* an entry stop: fall through to decode below */ }
                    _ => continue,
                }
            }
            Stop::Event => continue,
            Stop::Syscall => {}
        }
        if syscall_stop_op(pid) != 1 {
            // an exit stop (e.g. of the call during which we attached): keep going
            continue;
        }
        // At a syscall-entry stop.
        let regs = get_regs(pid);
        let nr = regs.orig_rax as i64;
        let mut decoded: Option<Call> = None;
        if !t.started {
            if nr == libc::SYS_write && regs.rdi as i32 == REC_FD {
                decoded = decode_entry(pid, &regs, ctx);
            }
        } else {
            decoded = decode_entry(pid, &regs, ctx);
        }
        let call = match decoded {
            Some(c) if c.name == "rec" || is_interesting(&c) => c,
            _ => {
                // uninteresting: the exit stop is skipped by the loop above
                continue;
            }
        };
        // The `start` record parks the tracee (all participants line up there).
        let is_start = call.rec.as_ref().map(|r| r["e"] == "start").unwrap_or(false);
        if is_start && !t.started {
            t.started = true;
            if sched {
                t.parked = Some(call);
                return Adv::Parked;
            }
        }
        // creating a temporary file makes it this participant's own
        if call.name == "open" && call.flags.contains(&"CREAT") && call.flags.contains(&"EXCL") {
            if let Some(l) = &call.path {
                if is_private_dir(&l.d) {
                    t.own_temps.insert(format!("{}/{}", l.d, l.n));
                    if let Some(real) = Path::new(&l.abs).file_name() {
                        ctx.tmodel.insert(real.to_string_lossy().to_string(), format!("t{}x{}", t.part, t.opi));
                    }
                }
            }
        }
        let allp = ALLPOINTS.load(std::sync::atomic::Ordering::Relaxed) && call.name != "rec"
            && (t.phase == "lib" || t.phase == "cb" || (t.phase == "prep" && FOLLOWING.load(std::sync::atomic::Ordering::Relaxed)));
        if sched && (allp || is_decision_point(&call, &t.phase, &t.own_temps)) && !t.world {
            t.parked = Some(call);
            return Adv::Parked;
        }
        pending = Some(call);
    }
}

/// Records a completed call.  Returns true when the record was the `ret` of an
/// API operation (used by solo mode).
fn record_exit(t: &mut Tracee, ctx: &mut RunCtx, call: &Call, rv: i64, injected: bool, _regs: &libc::user_regs_struct) -> bool {
    let pid = t.pid;
    if call.name == "rec" {
        let mut done = false;
        if let Some(rec) = &call.rec {
            let kind = rec["e"].as_str().unwrap_or("");
            match kind {
                "phase" => {
                    t.phase = rec["ph"].as_str().unwrap_or("").to_string();
                    return false; // phases are not events of their own
                }
                "call" => {
                    t.calls_in_op = 0;
                    t.opi = rec["opi"].as_i64().unwrap_or(0);
                    t.api = rec["api"].as_str().unwrap_or("").to_string();
                    t.world = rec["world"].as_bool().unwrap_or(false);
                    t.phase = "prep".into();
                }
                "ret" => {
                    t.phase = "app".into();
                    t.ops_done += 1;
                    done = true;
                }
                "end" => {
                    t.ended = true;
                }
                _ => {}
            }
            let mut ev = rec.clone();
            ev["p"] = json!(t.part);
            if kind == "ret" || kind == "obs" {
                ev["k"] = json!(t.nrec);
                ev["now"] = now_pair();
            }
            ctx.last_read = None;
            if kind == "ret" && ctx.snap_mode == "ret" {
                emit_snap_if_changed(ctx, &mut ev);
            }
            ctx.emit(ev);
        }
        return done;
    }
    // merge consecutive reads on the same descriptor
    if call.name == "read" {
        let key = (t.part, call.fd.unwrap_or(-1));
        // (consecutive reads are all recorded: under relatime every read of a file whose atime <= mtime advances atime)
        let _ = key;
        ctx.last_read = Some(key);
    } else {
        ctx.last_read = None;
    }
    let mut ev = json!({"e": "sys", "p": t.part, "opi": t.opi, "api": t.api, "ph": if t.world { "world".to_string() } else { t.phase.clone() },
                        "call": call.name, "raw": call.raw, "k": t.nrec});
    let ok = rv >= 0 || rv < -4095;
    ev["res"] = if ok { json!("ok") } else { json!(errno_name(-rv)) };
    if injected {
        ev["inj"] = json!(true);
    }
    if let Some(l) = &call.path {
        ev["path"] = loc_json(l);
    }
    if let Some(l) = &call.path2 {
        ev["path2"] = loc_json(l);
    }
    if let Some(fd) = call.fd {
        ev["fd"] = json!(fd);
        ev["via"] = json!("fd");
        if let Some(l) = &call.fdloc {
            ev["fdpath"] = loc_json(l);
        }
        if let Some(i) = &call.fdino {
            ev["ino"] = json!(i);
        }
    }
    if let Some(fd2) = call.fd2 {
        ev["fd2"] = json!(fd2);
        if let Some(i) = &call.fd2ino {
            ev["ino2"] = json!(i);
        }
    }
    if let Some(i) = &call.pre_ino {
        ev["pre"] = json!(i);
    }
    if !call.flags.is_empty() {
        ev["flags"] = json!(call.flags);
    }
    if let Some(m) = call.cmode {
        if call.name != "open" || call.flags.contains(&"CREAT") || call.flags.contains(&"TMPFILE") {
            ev["cmode"] = json!(m);
        }
    }
    if let Some((a, m)) = &call.times {
        // kind ("set" | "omit" | "now" | "unknown") and, for "set", the value
        for (k, v, kk) in [("at", a, "atk"), ("mt", m, "mtk")] {
            if v.is_array() {
                ev[kk] = json!("set");
                ev[k] = v.clone();
            } else {
                ev[kk] = v.clone();
            }
        }
    }
    if let Some(n) = call.len {
        ev["len"] = json!(n);
    }
    if call.nofollow {
        ev["nofollow"] = json!(true);
    }
    if matches!(call.name, "unlink" | "rmdir") {
        ev["now"] = now_pair();
    }
    match call.name {
        "open" => {
            if ok {
                ev["fd"] = json!(rv);
                if let Some((dev, ino, mode)) = proc_fd_ino(pid, rv as i32) {
                    if mode & libc::S_IFMT == libc::S_IFDIR {
                        ev["isdir"] = json!(true);
                    } else {
                        ev["ino"] = json!(ctx.ino_id(dev, ino));
                    }
                }
            }
        }
        "read" | "write" | "copy" => {
            if ok {
                ev["n"] = json!(rv);
            }
        }
        "lseek" => {
            ev["off"] = json!(call.off);
            ev["whence"] = json!(call.whence);
            if ok {
                ev["pos"] = json!(rv);
            }
        }
        "stat" => {
            if ok && call.bufaddr != 0 {
                if call.raw == "statx" {
                    let b = read_mem(pid, call.bufaddr, 256);
                    if b.len() >= 128 {
                        let u16at = |o: usize| u16::from_le_bytes(b[o..o + 2].try_into().unwrap());
                        let i64at = |o: usize| i64::from_le_bytes(b[o..o + 8].try_into().unwrap());
                        let u32at = |o: usize| u32::from_le_bytes(b[o..o + 4].try_into().unwrap());
                        let mode = u16at(28) as u32;
                        let kind = match mode & libc::S_IFMT {
                            libc::S_IFDIR => "dir",
                            libc::S_IFREG => "file",
                            _ => "other",
                        };
                        ev["st"] = json!({"kind": kind, "mode": mode & 0o7777,
                                          "at": [i64at(64), u32at(72)], "mt": [i64at(112), u32at(120)]});
                    }
                } else {
                    let b = read_mem(pid, call.bufaddr, 144);
                    if b.len() >= 144 {
                        let i64at = |o: usize| i64::from_le_bytes(b[o..o + 8].try_into().unwrap());
                        let u32at = |o: usize| u32::from_le_bytes(b[o..o + 4].try_into().unwrap());
                        let mode = u32at(24);
                        let kind = match mode & libc::S_IFMT {
                            libc::S_IFDIR => "dir",
                            libc::S_IFREG => "file",
                            _ => "other",
                        };
                        ev["st"] = json!({"kind": kind, "mode": mode & 0o7777,
                                          "at": [i64at(72), i64at(80)], "mt": [i64at(88), i64at(96)]});
                    }
                }
            }
        }
        "getdents" => {
            if ok && rv > 0 && ctx.emul_listorder.is_some() {
                let order = ctx.emul_listorder.clone().unwrap();
                let b = read_mem(pid, call.bufaddr, rv as usize);
                let mut recs: Vec<(usize, Vec<u8>)> = Vec::new();
                let mut o = 0usize;
                while o + 19 <= b.len() {
                    let reclen = u16::from_le_bytes(b[o + 16..o + 18].try_into().unwrap()) as usize;
                    if reclen == 0 || o + reclen > b.len() {
                        break;
                    }
                    let nb = &b[o + 19..o + reclen];
                    let end = nb.iter().position(|x| *x == 0).unwrap_or(nb.len());
                    let name = String::from_utf8_lossy(&nb[..end]).to_string();
                    let mname = ctx.tmodel.get(&name).cloned().unwrap_or(name);
                    let rank = if order.len() == 1 && order[0] == "<reverse>" {
                        usize::MAX - recs.len()
                    } else {
                        order.iter().position(|x| *x == mname).unwrap_or(order.len() + recs.len())
                    };
                    recs.push((rank, b[o..o + reclen].to_vec()));
                    o += reclen;
                }
                if o == b.len() {
                    recs.sort_by_key(|r| r.0);
                    let nb: Vec<u8> = recs.into_iter().flat_map(|r| r.1).collect();
                    write_mem(pid, call.bufaddr, &nb);
                }
            }
            if ok {
                let b = read_mem(pid, call.bufaddr, rv as usize);
                let mut names = Vec::new();
                let mut o = 0usize;
                while o + 19 <= b.len() {
                    let reclen = u16::from_le_bytes(b[o + 16..o + 18].try_into().unwrap()) as usize;
                    if reclen == 0 {
                        break;
                    }
                    let name_bytes = &b[o + 19..(o + reclen).min(b.len())];
                    let end = name_bytes.iter().position(|x| *x == 0).unwrap_or(name_bytes.len());
                    let name = String::from_utf8_lossy(&name_bytes[..end]).to_string();
                    if name != "." && name != ".." {
                        names.push(ctx.canon_name(&name));
                    }
                    o += reclen;
                }
                ev["names"] = json!(names);
            }
        }
        _ => {}
    }
    // strict-atime emulation: a successful read of a regular file stamps atime := now
    if ctx.emul_strict && call.name == "read" && ok && rv > 0 {
        if let Some(l) = &call.fdloc {
            if l.under {
                let p = format!("/proc/{}/fd/{}", pid, call.fd.unwrap_or(-1));
                let c = CString::new(p).unwrap();
                let ts = [libc::timespec { tv_sec: 0, tv_nsec: libc::UTIME_NOW }, libc::timespec { tv_sec: 0, tv_nsec: libc::UTIME_OMIT }];
                unsafe { libc::utimensat(libc::AT_FDCWD, c.as_ptr(), ts.as_ptr(), 0) };
            }
        }
    }
    let snap_worthy = !matches!(call.name, "close" | "lseek" | "stat" | "getdents" | "fsync" | "access" | "lock" | "dup");
    if snap_worthy && ctx.snap_mode == "full" {
        emit_snap_if_changed(ctx, &mut ev);
    }
    ctx.emit(ev);
    false
}

fn kill_tracee(t: &mut Tracee) {
    if t.alive {
        unsafe { libc::kill(t.pid, libc::SIGKILL) };
        loop {
            if let Stop::Exited = wait_stop(t.pid) {
                break;
            }
        }
        t.alive = false;
    }
}

static XDEV: std::sync::OnceLock<String> = std::sync::OnceLock::new();

fn subst(v: &Value, top: &str) -> Value {
    match v {
        Value::String(s) => Value::String(s.replace("@TOP@", top).replace("@XDEV@", XDEV.get().map(|x| x.as_str()).unwrap_or("/nonexistent-xdev"))),
        Value::Array(a) => Value::Array(a.iter().map(|x| subst(x, top)).collect()),
        Value::Object(o) => Value::Object(o.iter().map(|(k, x)| (k.clone(), subst(x, top))).collect()),
        other => other.clone(),
    }
}

struct StageResult {
    steps: usize, // scheduler steps taken (sched stages)
    calls: Vec<(usize, Vec<String>)>, // per participant: names of its counted calls (crash/fault indices)
    choices: Vec<usize>,       // participant chosen at each decision point
    enabled: Vec<Vec<usize>>,  // enabled participants at each decision point
    last_before: Vec<usize>,   // participant that ran before each decision point (usize::MAX if none)
}

/// Strategy callback result for the scheduler.
enum Strategy<'a> {
    Explicit(&'a [usize]),
    Random(&'a mut Rng),
    /// A total order of the participants' in-operation system calls (as a model behaviour gives it): at every step
    /// the participant whose next call comes first in that order runs.
    Follow(Vec<usize>),
}

fn run_stage(stage: &Value, ctx: &mut RunCtx, actor: &str, job: &Value, strategy: Strategy) -> StageResult {
    let top = ctx.world.top.clone();
    let mut res = StageResult { steps: 0, calls: vec![], choices: vec![], enabled: vec![], last_before: vec![] };
    if let Some(op) = stage["tracer_op"].as_str() {
        match op {
            "age_temp" => {
                let secs = stage["secs"].as_i64().unwrap_or(3605);
                let now = unsafe {
                    let mut ts: libc::timespec = std::mem::zeroed();
                    libc::clock_gettime(libc::CLOCK_REALTIME, &mut ts);
                    ts
                };
                fn walk(dir: &Path, intemp: bool, t: (i64, i64), depth: usize) {
                    if let Ok(rd) = std::fs::read_dir(dir) {
                        for e in rd.flatten() {
                            if let Ok(md) = std::fs::symlink_metadata(e.path()) {
                                if md.is_dir() {
                                    let it = intemp || e.file_name() == ".kismet_temp";
                                    if depth < 8 {
                                        walk(&e.path(), it, t, depth + 1);
                                    }
                                } else if intemp {
                                    set_times_raw(&e.path(), Some(t), Some(t));
                                }
                            }
                        }
                    }
                }
                walk(Path::new(&top), false, (now.tv_sec - secs, now.tv_nsec), 0);
                let mut ev = json!({"e": "age", "secs": secs});
                emit_snap_if_changed(ctx, &mut ev);
                ctx.emit(ev);
            }
            "snap" => {
                let mut ev = json!({"e": "mark", "what": stage["what"]});
                ctx.last_snap.clear();
                emit_snap_if_changed(ctx, &mut ev);
                ctx.emit(ev);
            }
            _ => {}
        }
        return res;
    }
    let parts = stage["parts"].as_array().cloned().unwrap_or_default();
    let sched = stage["mode"].as_str().unwrap_or("seq") == "sched";
    // "allpoints": every library call is a scheduling step (a peer can be frozen between ANY two of its calls)
    ALLPOINTS.store(stage["allpoints"].as_bool().unwrap_or(false), std::sync::atomic::Ordering::Relaxed);
    FOLLOWING.store(job["follow"].is_array(), std::sync::atomic::Ordering::Relaxed);
    OP_CALL_LIMIT.store(job["op_call_limit"].as_u64().unwrap_or(200_000) as usize, std::sync::atomic::Ordering::Relaxed);
    let mut tracees: Vec<Tracee> = Vec::new();
    for (i, p) in parts.iter().enumerate() {
        let mut spec = subst(p, &top);
        if spec["pid"].is_null() {
            spec["pid"] = json!(i + 1);
        }
        spec["top"] = json!(top);
        if spec["chunk"].is_null() {
            spec["chunk"] = json!(ctx.chunk);
        }
        if spec["uid"].is_null() {
            spec["uid"] = job["uid"].clone();
            if spec["uid"].is_null() {
                spec["uid"] = json!(65534);
            }
        }
        let part = spec["pid"].as_u64().unwrap_or((i + 1) as u64) as usize;
        let mut t = Tracee {
            pid: 0,
            part,
            alive: true,
            started: false,
            ended: false,
            opi: 0,
            api: String::new(),
            phase: "app".into(),
            world: false,
            nrec: 0,
            parked: None,
            crash_at: p["crash_at"].as_u64().map(|x| x as usize),
            fault_at: p["fault_at"].as_u64().map(|x| (x as usize, errno_of_name(p["fault_errno"].as_str().unwrap_or("EIO")))),
            fault_all: p["fault_all"]["call"].as_str().map(|c| (c.to_string(), errno_of_name(p["fault_all"]["errno"].as_str().unwrap_or("EIO")))),
            fault_left: p["fault_all"]["count"].as_u64(),
            fault_dirs: p["fault_all"]["dirs"].as_array().map(|a| a.iter().filter_map(|x| x.as_str().map(|y| y.to_string())).collect()).unwrap_or_default(),
            calls_in_op: 0,
            ops_done: 0,
            callnames: Vec::new(),
            own_temps: std::collections::HashSet::new(),
        };
        if sched {
            t.pid = spawn_actor(actor, &spec);
            // run up to the start record
            advance(&mut t, ctx, true, false);
            tracees.push(t);
        } else {
            t.pid = spawn_actor(actor, &spec);
            advance(&mut t, ctx, false, false);
            kill_tracee(&mut t);
            emit_stage_end(ctx, &t);
            res.calls.push((t.part, t.callnames.clone()));
        }
    }
    if !sched {
        return res;
    }
    // Scheduler loop.
    let adv: Vec<Value> = stage["adv"].as_array().cloned().unwrap_or_default();
    let solo = &stage["solo"]; // {"after": j, "p": part}
    let solo_after = solo["after"].as_u64().map(|x| x as usize);
    let solo_part = solo["p"].as_u64().map(|x| x as usize);
    let mut strategy = strategy;
    let mut last: usize = usize::MAX;
    let mut step: usize = 0; // counts scheduler steps (every resumption)
    let mut explicit_pos = 0usize;
    let mut solo_steps = 0usize;
    loop {
        let enabled: Vec<usize> = tracees.iter().enumerate().filter(|(_, t)| t.alive && t.parked.is_some()).map(|(i, _)| i).collect();
        if enabled.is_empty() {
            break;
        }
        step += 1;
        // adversary deletions designated for this step
        for a in adv.iter() {
            if a["at"].as_u64() == Some(step as u64) {
                if let Some(rel) = a["path"].as_str() {
                    let p = format!("{}/{}", top, rel);
                    let ok = std::fs::remove_file(&p).is_ok();
                    let l = ctx.loc_of_abs(&p);
                    let mut ev = json!({"e": "advdel", "path": loc_json(&l), "ok": ok, "step": step});
                    emit_snap_if_changed(ctx, &mut ev);
                    ctx.emit(ev);
                }
            }
        }
        let mut solo_now = false;
        let progress: Vec<(usize, usize)> = tracees.iter().map(|t| (t.part, t.nrec)).collect();
        let choice = if let (Some(after), Some(sp)) = (solo_after, solo_part) {
            if step > after {
                solo_now = true;
                match tracees.iter().position(|t| t.part == sp && t.alive && t.parked.is_some()) {
                    Some(i) => i,
                    None => break,
                }
            } else {
                pick(&enabled, &mut strategy, &mut explicit_pos, last, &mut res, &progress)
            }
        } else {
            pick(&enabled, &mut strategy, &mut explicit_pos, last, &mut res, &progress)
        };
        last = choice;
        let before_ops = tracees[choice].ops_done;
        let r = advance(&mut tracees[choice], ctx, true, solo_now);
        if solo_now {
            if tracees[choice].ops_done > before_ops || !matches!(r, Adv::Parked) {
                // the solo participant finished its current operation (or died)
                break;
            }
            solo_steps += 1;
            if solo_steps > 4000 {
                let ev = json!({"e": "stuck", "p": tracees[choice].part, "opi": tracees[choice].opi, "api": tracees[choice].api, "steps": solo_steps});
                ctx.emit(ev);
                break;
            }
        }
    }
    res.steps = step;
    for t in tracees.iter_mut() {
        let frozen = t.alive;
        kill_tracee(t);
        if frozen {
            let ev = json!({"e": "frozen", "p": t.part, "opi": t.opi, "api": t.api});
            ctx.emit(ev);
        }
        emit_stage_end(ctx, t);
        res.calls.push((t.part, t.callnames.clone()));
    }
    res
}

fn emit_stage_end(ctx: &mut RunCtx, t: &Tracee) {
    if !t.ended {
        let ev = json!({"e": "gone", "p": t.part, "opi": t.opi, "api": t.api, "ended": t.ended});
        ctx.emit(ev);
    }
}

fn pick(enabled: &[usize], strategy: &mut Strategy, pos: &mut usize, last: usize, res: &mut StageResult, progress: &[(usize, usize)]) -> usize {
    if enabled.len() == 1 {
        return enabled[0];
    }
    let default = if enabled.contains(&last) { last } else { enabled[0] };
    let c = match strategy {
        Strategy::Explicit(list) => {
            let c = if *pos < list.len() && enabled.contains(&list[*pos]) { list[*pos] } else { default };
            *pos += 1;
            c
        }
        Strategy::Random(rng) => enabled[rng.below(enabled.len())],
        Strategy::Follow(order) => {
            // position in the order of each enabled participant's next (not yet performed) call
            let mut best = (usize::MAX, default);
            for &i in enabled {
                let (part, done) = progress[i];
                let mut seen = 0usize;
                let mut at = usize::MAX;
                for (j, &q) in order.iter().enumerate() {
                    if q == part {
                        if seen == done {
                            at = j;
                            break;
                        }
                        seen += 1;
                    }
                }
                if at < best.0 {
                    best = (at, i);
                }
            }
            best.1
        }
    };
    res.choices.push(c);
    res.enabled.push(enabled.to_vec());
    res.last_before.push(last);
    c
}

fn fresh_world(work: &str) -> String {
    let top = format!("{}/w", work);
    if Path::new(&top).exists() && std::fs::remove_dir_all(&top).is_err() {
        let _ = std::process::Command::new("chmod").arg("-R").arg("u+rwx").arg(&top).output();
        let _ = std::fs::remove_dir_all(&top);
    }
    std::fs::create_dir_all(&top).expect("create world");
    let c = CString::new(top.clone()).unwrap();
    unsafe {
        libc::chown(c.as_ptr(), 65534, 65534);
        libc::chmod(c.as_ptr(), 0o755);
    }
    top
}

fn run_once(job: &Value, runno: u64, actor: &str, work: &str, out: &mut dyn Write, sched_prefix: &[usize], rng: Option<&mut Rng>) -> (StageResult, u64) {
    unsafe { libc::alarm(300) }; // watchdog: a stuck run kills the tracer (tool error), never a verdict
    let top = fresh_world(work);
    let mut ctx = RunCtx {
        world: World { top: top.clone() },
        out,
        inos: HashMap::new(),
        tnames: HashMap::new(),
        last_snap: String::new(),
        content_cache: HashMap::new(),
        seq: 0,
        chunk: job["chunk"].as_u64().unwrap_or(4096) as usize,
        snap_mode: job["snap"].as_str().unwrap_or("full").to_string(),
        emul_noatime: job["emul"]["noatime"].as_bool().unwrap_or(false),
        emul_strict: job["emul"]["strictatime"].as_bool().unwrap_or(false),
        emul_gran: job["emul"]["gran"].as_i64().unwrap_or(0),
        last_read: None,
        nevents: 0,
        emul_listorder: job["emul"]["listorder"].as_array().map(|a| a.iter().map(|x| x.as_str().unwrap_or("").to_string()).collect()),
        tmodel: HashMap::new(),
    };
    // pre-made directories (owned by the unprivileged user)
    if let Some(ds) = job["mkdirs"].as_array() {
        for d in ds {
            let p = format!("{}/{}", top, d.as_str().unwrap_or("x"));
            let _ = std::fs::create_dir_all(&p);
            // chown every component below top
            let mut cur = PathBuf::from(&top);
            for comp in Path::new(d.as_str().unwrap_or("x")).components() {
                cur.push(comp);
                let c = CString::new(cur.as_os_str().as_bytes()).unwrap();
                unsafe {
                    libc::chown(c.as_ptr(), 65534, 65534);
                }
            }
        }
    }
    let atime = if ctx.emul_noatime { "noatime" } else if ctx.emul_strict { "strict" } else { "relatime" };
    let mut reset = json!({"e": "reset", "job": job["id"], "run": runno, "cfg": job["cfg"],
                           "atime": atime, "gran": ctx.emul_gran, "chunk": ctx.chunk});
    emit_snap_if_changed(&mut ctx, &mut reset);
    if reset["snap"].is_null() {
        reset["snap"] = json!({"ents": {".": {}}, "inos": {}});
    }
    ctx.emit(reset);
    let mut result = StageResult { steps: 0, calls: vec![], choices: vec![], enabled: vec![], last_before: vec![] };
    let stages = job["stages"].as_array().cloned().unwrap_or_default();
    let mut rng = rng;
    for st in stages.iter() {
        let is_sched = st["mode"].as_str() == Some("sched");
        let strat = if is_sched {
            if let Some(r) = rng.as_deref_mut() {
                Strategy::Random(r)
            } else if let Some(f) = job["follow"].as_array() {
                Strategy::Follow(f.iter().map(|x| x.as_u64().unwrap_or(0) as usize).collect())
            } else {
                Strategy::Explicit(sched_prefix)
            }
        } else {
            Strategy::Explicit(&[])
        };
        let r = run_stage(st, &mut ctx, actor, job, strat);
        if is_sched || st["victim"].as_bool().unwrap_or(false) {
            result = r;
        }
    }
    let ev = json!({"e": "endrun", "job": job["id"], "run": runno, "sched": result.choices,
                    "nenabled": result.enabled.iter().map(|e| e.len()).collect::<Vec<_>>()});
    ctx.emit(ev);
    let n = ctx.nevents;
    (result, n)
}

fn preemptions(choices: &[usize], enabled: &[Vec<usize>], last_before: &[usize]) -> usize {
    let mut n = 0;
    for i in 0..choices.len() {
        let prev = last_before[i];
        if prev != usize::MAX && choices[i] != prev && enabled[i].contains(&prev) {
            n += 1;
        }
    }
    n
}

fn main() {
    let args: Vec<String> = std::env::args().collect();
    if args.len() < 3 {
        eprintln!("usage: kv-tracer <jobs.ndjson> <out.ndjson> [--actor path] [--work dir]");
        std::process::exit(2);
    }
    let mut actor = {
        let mut p = std::env::current_exe().unwrap();
        p.pop();
        p.push("kv-actor");
        p.to_string_lossy().to_string()
    };
    let mut work = format!("/dev/shm/kvw-{}", std::process::id());
    let mut i = 3;
    while i < args.len() {
        match args[i].as_str() {
            "--actor" => {
                actor = args[i + 1].clone();
                i += 2;
            }
            "--work" => {
                work = args[i + 1].clone();
                i += 2;
            }
            "--xdev" => {
                // a scratch directory on ANOTHER filesystem than the worlds (for cross-device sources)
                let d = args[i + 1].clone();
                let _ = std::fs::create_dir_all(&d);
                let c = CString::new(d.clone()).unwrap();
                unsafe {
                    libc::chown(c.as_ptr(), 65534, 65534);
                    libc::chmod(c.as_ptr(), 0o755);
                }
                let _ = XDEV.set(d);
                i += 2;
            }
            _ => i += 1,
        }
    }
    std::fs::create_dir_all(&work).expect("work dir");
    unsafe {
        let c = CString::new(work.clone()).unwrap();
        libc::chmod(c.as_ptr(), 0o755);
    }
    let jobs_text = std::fs::read_to_string(&args[1]).expect("read jobs");
    let mut out = std::io::BufWriter::with_capacity(1 << 20, std::fs::File::create(&args[2]).expect("create out"));
    let mut total_runs = 0u64;
    let mut summary: BTreeMap<String, u64> = BTreeMap::new();
    for line in jobs_text.lines() {
        if line.trim().is_empty() {
            continue;
        }
        let job: Value = serde_json::from_str(line).expect("job json");
        let ex = &job["explore"];
        let kind = ex["kind"].as_str().unwrap_or("none");
        let max_runs = ex["runs"].as_u64().unwrap_or(1);
        let mut runs = 0u64;
        match kind {
            "bursts" => {
                // check-then-act races with ONE switch: participant a runs j steps, then participant b runs to completion, then
                // everybody else; for every ordered pair (a, b) and every j up to the length of a's run
                let nparts = job["stages"].as_array().and_then(|st| st.iter().find(|s| s["mode"] == "sched").map(|s| s["parts"].as_array().map(|a| a.len()).unwrap_or(0))).unwrap_or(0);
                let stride = ex["stride"].as_u64().unwrap_or(1).max(1) as usize;
                'outer: for a in 0..nparts {
                    for b in 0..nparts {
                        if a == b {
                            continue;
                        }
                        let mut j = ex["offset"].as_u64().unwrap_or(0) as usize % stride;
                        loop {
                            let mut sched: Vec<usize> = vec![a; j];
                            sched.extend(std::iter::repeat(b).take(4000));
                            runs += 1;
                            let (res, _) = run_once(&job, runs, &actor, &work, &mut out, &sched, None);
                            // a's prefix was longer than its whole run: every later j repeats this schedule
                            let a_choices = res.choices.iter().take_while(|c| **c == a).count();
                            if a_choices < j || runs >= max_runs {
                                if runs >= max_runs {
                                    break 'outer;
                                }
                                break;
                            }
                            j += stride;
                        }
                    }
                }
            }
            "random" => {
                let mut rng = Rng(ex["seed"].as_u64().unwrap_or(1));
                for _ in 0..max_runs {
                    runs += 1;
                    run_once(&job, runs, &actor, &work, &mut out, &[], Some(&mut rng));
                }
            }
            "dfs" => {
                // Stateless DFS over scheduler choices with an optional preemption bound.
                let bound = ex["preempt"].as_u64().map(|x| x as usize);
                let mut prefix: Vec<usize> = ex["prefix"].as_array().map(|a| a.iter().map(|x| x.as_u64().unwrap_or(0) as usize).collect()).unwrap_or_default();
                let fixed = prefix.len();
                loop {
                    runs += 1;
                    let (r, _) = run_once(&job, runs, &actor, &work, &mut out, &prefix, None);
                    if runs >= max_runs {
                        break;
                    }
                    // find the deepest point with an untried alternative
                    let mut next: Option<Vec<usize>> = None;
                    let mut depth = r.choices.len();
                    while depth > fixed {
                        depth -= 1;
                        let en = &r.enabled[depth];
                        let cur = r.choices[depth];
                        let pos = en.iter().position(|x| *x == cur).unwrap_or(0);
                        // order of alternatives: default first (as taken), then the others in order
                        let mut order: Vec<usize> = Vec::new();
                        let dflt = if en.contains(&r.last_before[depth]) { r.last_before[depth] } else { en[0] };
                        order.push(dflt);
                        for x in en.iter() {
                            if *x != dflt {
                                order.push(*x);
                            }
                        }
                        let _ = pos;
                        let cpos = order.iter().position(|x| *x == cur).unwrap_or(0);
                        let mut found = None;
                        for alt in order.iter().skip(cpos + 1) {
                            let mut cand: Vec<usize> = r.choices[..depth].to_vec();
                            cand.push(*alt);
                            if let Some(b) = bound {
                                let mut lb = r.last_before[..depth + 1].to_vec();
                                lb.truncate(depth + 1);
                                let pre = preemptions(&cand, &r.enabled[..depth + 1], &lb);
                                if pre > b {
                                    continue;
                                }
                            }
                            found = Some(cand);
                            break;
                        }
                        if found.is_some() {
                            next = found;
                            break;
                        }
                    }
                    match next {
                        Some(p) => prefix = p,
                        None => break,
                    }
                }
            }
            "solo" => {
                // C06: from every scheduler step of a base schedule, run one participant alone.
                let bases = ex["bases"].as_u64().unwrap_or(1);
                let stride = ex["stride"].as_u64().unwrap_or(1).max(1) as usize;
                let nparts = job["stages"].as_array().and_then(|st| st.iter().find(|s| s["mode"] == "sched").map(|s| s["parts"].as_array().map(|a| a.len()).unwrap_or(0))).unwrap_or(0);
                'outer: for b in 0..bases {
                    let mut rng = Rng(ex["seed"].as_u64().unwrap_or(1).wrapping_add(b));
                    runs += 1;
                    let (r, _) = run_once(&job, runs, &actor, &work, &mut out, &[], Some(&mut rng));
                    let choices = r.choices.clone();
                    let mut j = (b as usize) % stride;
                    while j <= r.steps {
                        for p in 1..=nparts {
                            let mut j2 = job.clone();
                            if let Some(stages) = j2["stages"].as_array_mut() {
                                for st in stages.iter_mut() {
                                    if st["mode"] == "sched" {
                                        st["solo"] = json!({"after": j, "p": p});
                                    }
                                }
                            }
                            let mut cfg = j2["cfg"].clone();
                            if !cfg.is_object() {
                                cfg = json!({});
                            }
                            cfg["solo"] = json!({"after": j, "p": p});
                            j2["cfg"] = cfg;
                            j2["sched"] = json!(choices);
                            runs += 1;
                            run_once(&j2, runs, &actor, &work, &mut out, &choices, None);
                            if runs >= max_runs {
                                break 'outer;
                            }
                        }
                        j += stride;
                    }
                }
            }
            "crash" | "fault" => {
                // Clean run first: how many calls does the victim make, and which?
                runs += 1;
                let (r, _) = run_once(&job, runs, &actor, &work, &mut out, &[], None);
                let victim = ex["part"].as_u64().unwrap_or(1) as usize;
                let names: Vec<String> = r.calls.iter().find(|(p, _)| *p == victim).map(|(_, v)| v.clone()).unwrap_or_default();
                let stride = ex["stride"].as_u64().unwrap_or(1).max(1) as usize;
                let offset = ex["offset"].as_u64().unwrap_or(0) as usize;
                for i in 1..=names.len() {
                    if (i + offset) % stride != 0 {
                        continue;
                    }
                    let errnos: Vec<String> = if kind == "crash" {
                        vec![String::new()]
                    } else {
                        let m = &ex["errnos"];
                        let lst = if m[names[i - 1].as_str()].is_array() { &m[names[i - 1].as_str()] } else { &m["*"] };
                        lst.as_array().map(|a| a.iter().map(|x| x.as_str().unwrap_or("EIO").to_string()).collect()).unwrap_or_default()
                    };
                    for en in errnos {
                        let mut j2 = job.clone();
                        // find the victim participant in the victim stage
                        if let Some(stages) = j2["stages"].as_array_mut() {
                            for st in stages.iter_mut() {
                                if st["victim"].as_bool().unwrap_or(false) {
                                    if let Some(parts) = st["parts"].as_array_mut() {
                                        for (pi, p) in parts.iter_mut().enumerate() {
                                            let pid = p["pid"].as_u64().unwrap_or((pi + 1) as u64) as usize;
                                            if pid == victim {
                                                if kind == "crash" {
                                                    p["crash_at"] = json!(i);
                                                } else {
                                                    p["fault_at"] = json!(i);
                                                    p["fault_errno"] = json!(en);
                                                }
                                            }
                                        }
                                    }
                                }
                            }
                        }
                        let mut cfg = j2["cfg"].clone();
                        if !cfg.is_object() {
                            cfg = json!({});
                        }
                        cfg["inject"] = json!({"kind": kind, "at": i, "call": names[i - 1], "errno": en});
                        j2["cfg"] = cfg;
                        runs += 1;
                        run_once(&j2, runs, &actor, &work, &mut out, &[], None);
                        if runs >= max_runs {
                            break;
                        }
                    }
                    if runs >= max_runs {
                        break;
                    }
                }
            }
            _ => {
                let sched: Vec<usize> = job["sched"].as_array().map(|a| a.iter().map(|x| x.as_u64().unwrap_or(0) as usize).collect()).unwrap_or_default();
                runs += 1;
                run_once(&job, runs, &actor, &work, &mut out, &sched, None);
            }
        }
        total_runs += runs;
        *summary.entry(kind.to_string()).or_insert(0) += runs;
    }
    out.flush().unwrap();
    let _ = std::process::Command::new("chmod").arg("-R").arg("u+rwx").arg(&work).output();
    let _ = std::fs::remove_dir_all(&work);
    eprintln!("kv-tracer: {} runs {:?}", total_runs, summary);
}
