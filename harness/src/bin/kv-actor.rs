//! kv-actor: runs a scripted program against the real kismet_cache library.
//!
//! Usage: kv-actor <spec.json | inline-json>
//!        kv-actor --pure <cases.ndjson> <out.ndjson>   (pure functions, no tracer)
//!
//! Around every API call the actor writes JSON records to descriptor 999
//! (`call`, `phase`, `ret`, `obs`); the tracer intercepts those writes, so they
//! are totally ordered with the system calls it records.  The actor contains
//! no property logic: it reports what the library returned and what a user
//! could observe on the returned handle.
use kismet_cache::{Cache, CacheBuilder, CacheHit, CacheHitAction, Key, ReadOnlyCache, ReadOnlyCacheBuilder};
use kv_harness::content::{decode, make_chunk};
use serde_json::{json, Value};
use std::fs::File;
use std::io::{Read, Seek, SeekFrom, Write};
use std::os::unix::io::AsRawFd;
use std::panic::{catch_unwind, AssertUnwindSafe};
use std::path::{Path, PathBuf};
use std::sync::{Arc, Mutex};

const REC_FD: i32 = 999;

fn emit(v: &Value) {
    let mut s = v.to_string();
    s.push('\n');
    let b = s.as_bytes();
    // One write(2) per record; the tracer reads the buffer at syscall entry.
    let rc = unsafe { libc::write(REC_FD, b.as_ptr() as *const libc::c_void, b.len()) };
    if rc < 0 {
        // Not traced (debug use): print to stdout.
        print!("{}", s);
    }
}

fn phase(ph: &str) {
    emit(&json!({"e": "phase", "ph": ph}));
}

enum Handle {
    Plain(kismet_cache::plain::Cache),
    Sharded(kismet_cache::sharded::Cache),
    Stack(Cache),
    Ro(ReadOnlyCache),
}

type CheckLog = Arc<Mutex<Vec<Value>>>;

struct Ctx {
    chunk: usize,
    pid: u32,
    checklog: CheckLog,
    top: String,
}

fn u64_of(v: &Value) -> u64 {
    match v {
        Value::Number(n) => n.as_u64().unwrap_or(0),
        Value::String(s) => s.parse().unwrap_or(0),
        _ => 0,
    }
}

fn usize_of(v: &Value, default: usize) -> usize {
    match v {
        Value::Number(n) => n.as_u64().map(|x| x as usize).unwrap_or(default),
        Value::String(s) if s == "max" => usize::MAX,
        Value::String(s) => s.parse().unwrap_or(default),
        _ => default,
    }
}

fn decode_file_rewinding(f: &mut File, chunk: usize) -> Value {
    let mut buf = Vec::new();
    match f.read_to_end(&mut buf) {
        Ok(_) => decode(&buf, chunk),
        Err(e) => json!({"kind": "readerr", "err": format!("{:?}", e.kind())}),
    }
}

fn error_kind_of(name: &str) -> std::io::ErrorKind {
    use std::io::ErrorKind::*;
    match name {
        "notfound" => NotFound,
        "interrupted" => Interrupted,
        "wouldblock" => WouldBlock,
        "alreadyexists" => AlreadyExists,
        "permissiondenied" => PermissionDenied,
        "unsupported" => Unsupported,
        "invalidinput" => InvalidInput,
        "unexpectedeof" => UnexpectedEof,
        "timedout" => TimedOut,
        _ => Other,
    }
}

fn logging_checker(
    log: CheckLog,
    chunk: usize,
    errkind: std::io::ErrorKind,
) -> impl Fn(&mut File, &mut File) -> std::io::Result<()> + Sync + Send + std::panic::RefUnwindSafe + std::panic::UnwindSafe + 'static
{
    move |a: &mut File, b: &mut File| {
        phase("cb");
        let mut x = Vec::new();
        let mut y = Vec::new();
        a.read_to_end(&mut x)?;
        b.read_to_end(&mut y)?;
        let (dx, dy) = (decode(&x, chunk), decode(&y, chunk));
        // equality up to the writer tag, which identifies the copy (level) in the log
        let same = dx["kind"] == dy["kind"] && dx["key"] == dy["key"] && dx["val"] == dy["val"] && dx["chunks"] == dy["chunks"] && dx["of"] == dy["of"];
        log.lock().unwrap().push(json!([dx, dy]));
        phase("lib");
        if same {
            Ok(())
        } else {
            Err(std::io::Error::new(errkind, "mismatch"))
        }
    }
}

fn build_handle(spec: &Value, ctx: &Ctx) -> Handle {
    let kind = spec["kind"].as_str().unwrap_or("plain");
    match kind {
        "plain" => Handle::Plain(kismet_cache::plain::Cache::new(
            PathBuf::from(spec["dir"].as_str().unwrap()),
            usize_of(&spec["cap"], 1000),
        )),
        "sharded" => Handle::Sharded(kismet_cache::sharded::Cache::new(
            PathBuf::from(spec["dir"].as_str().unwrap()),
            usize_of(&spec["shards"], 2),
            usize_of(&spec["cap"], 1000),
        )),
        "stack" => {
            let mut b = CacheBuilder::new();
            // "builder": "reused" -- the builder has already produced another cache (take() must leave it in its default state)
            if spec["builder"].as_str() == Some("reused") {
                let scratch = format!("{}/TMP/earlier-cache", ctx.top);
                let _earlier = b.plain_writer(&scratch, 10).auto_sync(true).take().build();
            }
            let w = &spec["writer"];
            if w.is_object() {
                match w["kind"].as_str().unwrap_or("plain") {
                    "plain" => {
                        b.plain_writer(w["dir"].as_str().unwrap(), usize_of(&w["cap"], 1000));
                    }
                    _ => {
                        b.sharded_writer(
                            w["dir"].as_str().unwrap(),
                            usize_of(&w["shards"], 2),
                            usize_of(&w["cap"], 1000),
                        );
                    }
                }
            }
            if let Some(rs) = spec["readers"].as_array() {
                for r in rs {
                    match r["kind"].as_str().unwrap_or("plain") {
                        "plain" => {
                            b.plain_reader(r["dir"].as_str().unwrap());
                        }
                        _ => {
                            b.sharded_reader(r["dir"].as_str().unwrap(), usize_of(&r["shards"], 2));
                        }
                    }
                }
            }
            match spec["checker"].as_str().unwrap_or("none") {
                "eq" => {
                    b.byte_equality_checker();
                }
                "panic" => {
                    b.panicking_byte_equality_checker();
                }
                "log" => {
                    b.consistency_checker(logging_checker(ctx.checklog.clone(), ctx.chunk, std::io::ErrorKind::Other));
                }
                // the same checker reporting a mismatch with another kind of error ("log:notfound", "log:interrupted", ...):
                // whatever the kind, it is the checker's verdict and must reach the caller
                k if k.starts_with("log:") => {
                    b.consistency_checker(logging_checker(ctx.checklog.clone(), ctx.chunk, error_kind_of(&k[4..])));
                }
                // a checker that was configured and then removed again: must behave as if none had ever been set
                "cleared" => {
                    b.byte_equality_checker();
                    b.clear_consistency_checker();
                }
                "cleared-panic" => {
                    b.panicking_byte_equality_checker();
                    b.arc_consistency_checker(None);
                }
                _ => {}
            }
            if let Some(s) = spec["auto_sync"].as_bool() {
                b.auto_sync(s);
            }
            Handle::Stack(b.build())
        }
        "ro" => {
            let mut b = ReadOnlyCacheBuilder::new();
            if let Some(rs) = spec["readers"].as_array() {
                for r in rs {
                    match r["kind"].as_str().unwrap_or("plain") {
                        "plain" => {
                            b.plain(r["dir"].as_str().unwrap());
                        }
                        _ => {
                            b.sharded(r["dir"].as_str().unwrap(), usize_of(&r["shards"], 2));
                        }
                    }
                }
            }
            match spec["checker"].as_str().unwrap_or("none") {
                "eq" => {
                    b.byte_equality_checker();
                }
                "panic" => {
                    b.panicking_byte_equality_checker();
                }
                "log" => {
                    b.consistency_checker(logging_checker(ctx.checklog.clone(), ctx.chunk, std::io::ErrorKind::Other));
                }
                // the same checker reporting a mismatch with another kind of error ("log:notfound", "log:interrupted", ...):
                // whatever the kind, it is the checker's verdict and must reach the caller
                k if k.starts_with("log:") => {
                    b.consistency_checker(logging_checker(ctx.checklog.clone(), ctx.chunk, error_kind_of(&k[4..])));
                }
                _ => {}
            }
            Handle::Ro(b.build())
        }
        other => panic!("unknown cache kind {}", other),
    }
}

fn write_value(f: &mut File, key: &str, val: &str, w: u32, chunks: u32, chunk: usize) -> std::io::Result<()> {
    for i in 1..=chunks {
        let data = make_chunk(key, val, w, i, chunks, chunk);
        f.write_all(&data)?;
    }
    Ok(())
}

#[derive(Default)]
struct Outcome {
    ok: bool,
    kind: Option<String>,
    errno: Option<i32>,
    res: String,
    file: Option<File>,
    extra: serde_json::Map<String, Value>,
}

fn err_outcome(e: std::io::Error) -> Outcome {
    Outcome {
        ok: false,
        kind: Some(format!("{:?}", e.kind())),
        errno: e.raw_os_error(),
        res: "err".into(),
        ..Default::default()
    }
}

fn from_opt_file(r: std::io::Result<Option<File>>) -> Outcome {
    match r {
        Ok(Some(f)) => Outcome { ok: true, res: "some".into(), file: Some(f), ..Default::default() },
        Ok(None) => Outcome { ok: true, res: "none".into(), ..Default::default() },
        Err(e) => err_outcome(e),
    }
}

fn from_file(r: std::io::Result<File>) -> Outcome {
    match r {
        Ok(f) => Outcome { ok: true, res: "some".into(), file: Some(f), ..Default::default() },
        Err(e) => err_outcome(e),
    }
}

fn from_bool(r: std::io::Result<bool>) -> Outcome {
    match r {
        Ok(b) => Outcome { ok: true, res: if b { "true".into() } else { "false".into() }, ..Default::default() },
        Err(e) => err_outcome(e),
    }
}

fn from_unit(r: std::io::Result<()>) -> Outcome {
    match r {
        Ok(()) => Outcome { ok: true, res: "unit".into(), ..Default::default() },
        Err(e) => err_outcome(e),
    }
}

fn temp_dir_of(h: &Handle, key: Key) -> std::io::Result<PathBuf> {
    match h {
        Handle::Plain(c) => c.temp_dir().map(|p| p.into_owned()),
        Handle::Sharded(c) => c.temp_dir(Some(key)).map(|p| p.into_owned()),
        _ => Err(std::io::Error::new(std::io::ErrorKind::Other, "no temp_dir on this front end")),
    }
}

/// Executes one library operation.  Everything between phase("lib") and the
/// return is the library (plus the closures it calls, flagged "cb").
fn run_op(h: &Handle, op: &Value, ctx: &Ctx) -> Outcome {
    let api = op["api"].as_str().unwrap_or("");
    let name = op["key"].as_str().unwrap_or("");
    let key = Key::new(name, u64_of(&op["hash"]), u64_of(&op["sec"]));
    let val = op["val"].as_str().unwrap_or("v");
    let chunks = op["chunks"].as_u64().unwrap_or(1) as u32;
    let chunk = ctx.chunk;
    // writer tag of the values this operation writes (default: the participant id)
    let pid = op["w"].as_u64().map(|x| x as u32).unwrap_or(ctx.pid);
    match api {
        "get" => {
            phase("lib");
            from_opt_file(match h {
                Handle::Plain(c) => c.get(name),
                Handle::Sharded(c) => c.get(key),
                Handle::Stack(c) => c.get(key),
                Handle::Ro(c) => c.get(key),
            })
        }
        "touch" => {
            phase("lib");
            from_bool(match h {
                Handle::Plain(c) => c.touch(name),
                Handle::Sharded(c) => c.touch(key),
                Handle::Stack(c) => c.touch(key),
                Handle::Ro(c) => c.touch(key),
            })
        }
        "temp_dir" => {
            phase("lib");
            let r = match h {
                Handle::Plain(c) => c.temp_dir().map(|p| p.into_owned()),
                Handle::Sharded(c) => {
                    if op["nokey"].as_bool().unwrap_or(false) {
                        c.temp_dir(None).map(|p| p.into_owned())
                    } else {
                        c.temp_dir(Some(key)).map(|p| p.into_owned())
                    }
                }
                _ => Err(std::io::Error::new(std::io::ErrorKind::Other, "n/a")),
            };
            match r {
                Ok(p) => {
                    let mut o = Outcome { ok: true, res: "path".into(), ..Default::default() };
                    o.extra.insert("path".into(), json!(p.to_string_lossy()));
                    o
                }
                Err(e) => err_outcome(e),
            }
        }
        "set" | "put" if op["srclink"].is_string() => {
            // The value handed to the cache is ANOTHER HARD LINK to an existing file (typically the entry cached under the same key:
            // a zero-copy refresh): rename(2) of two links to one inode is a successful no-op, the source must be consumed all the same.
            let from = PathBuf::from(op["srclink"].as_str().unwrap());
            let dir = PathBuf::from(op["srcdir"].as_str().unwrap_or("/nonexistent"));
            let path = dir.join(format!("relink-{}-{}", pid, op["key"].as_str().unwrap_or("k")));
            if let Err(e) = std::fs::hard_link(&from, &path) {
                let mut o = err_outcome(e);
                o.extra.insert("stage".into(), json!("relink"));
                return o;
            }
            phase("lib");
            let r = match (h, api) {
                (Handle::Plain(c), "set") => c.set(name, &path),
                (Handle::Plain(c), _) => c.put(name, &path),
                (Handle::Sharded(c), "set") => c.set(key, &path),
                (Handle::Sharded(c), _) => c.put(key, &path),
                (Handle::Stack(c), "set") => c.set(key, &path),
                (Handle::Stack(c), _) => c.put(key, &path),
                _ => Err(std::io::Error::new(std::io::ErrorKind::Other, "n/a")),
            };
            phase("app");
            let mut o = from_unit(r);
            o.extra.insert("src_exists".into(), json!(path.symlink_metadata().is_ok()));
            let _ = std::fs::remove_file(&path);
            o
        }
        "set" | "put" => {
            // Application side: make the value file.
            match h {
                Handle::Plain(_) | Handle::Sharded(_) => {
                    let dir = match { phase("lib"); let d = temp_dir_of(h, key); phase("prep"); d } {
                        Ok(d) => d,
                        Err(e) => {
                            let mut o = err_outcome(e);
                            o.extra.insert("stage".into(), json!("temp_dir"));
                            return o;
                        }
                    };
                    let mut tmp = match tempfile::NamedTempFile::new_in(&dir) {
                        Ok(t) => t,
                        Err(e) => {
                            let mut o = err_outcome(e);
                            o.extra.insert("stage".into(), json!("mktemp"));
                            return o;
                        }
                    };
                    if let Err(e) = write_value(tmp.as_file_mut(), name, val, pid, chunks, chunk) {
                        let mut o = err_outcome(e);
                        o.extra.insert("stage".into(), json!("write"));
                        return o;
                    }
                    let path = tmp.path().to_owned();
                    apply_srcmode(&path, op);
                    phase("lib");
                    let r = match (h, api) {
                        (Handle::Plain(c), "set") => c.set(name, &path),
                        (Handle::Plain(c), _) => c.put(name, &path),
                        (Handle::Sharded(c), "set") => c.set(key, &path),
                        (Handle::Sharded(c), _) => c.put(key, &path),
                        _ => unreachable!(),
                    };
                    phase("app");
                    let mut o = from_unit(r);
                    o.extra.insert("src_exists".into(), json!(path.symlink_metadata().is_ok()));
                    drop(tmp);
                    o
                }
                Handle::Stack(c) => {
                    // The source lives in a scratch directory of the application.
                    let dir = PathBuf::from(op["srcdir"].as_str().unwrap_or("/nonexistent"));
                    let mut tmp = match tempfile::NamedTempFile::new_in(&dir) {
                        Ok(t) => t,
                        Err(e) => {
                            let mut o = err_outcome(e);
                            o.extra.insert("stage".into(), json!("mktemp"));
                            return o;
                        }
                    };
                    if let Err(e) = write_value(tmp.as_file_mut(), name, val, pid, chunks, chunk) {
                        let mut o = err_outcome(e);
                        o.extra.insert("stage".into(), json!("write"));
                        return o;
                    }
                    let path = tmp.path().to_owned();
                    apply_srcmode(&path, op);
                    phase("lib");
                    let r = if api == "set" { c.set(key, &path) } else { c.put(key, &path) };
                    phase("app");
                    let mut o = from_unit(r);
                    o.extra.insert("src_exists".into(), json!(path.symlink_metadata().is_ok()));
                    drop(tmp);
                    o
                }
                Handle::Ro(_) => err_outcome(std::io::Error::new(std::io::ErrorKind::Other, "n/a")),
            }
        }
        "set_tf" | "put_tf" => match h {
            Handle::Stack(c) => {
                let dir = PathBuf::from(op["srcdir"].as_str().unwrap_or("/nonexistent"));
                let mut tmp = match tempfile::NamedTempFile::new_in(&dir) {
                    Ok(t) => t,
                    Err(e) => {
                        let mut o = err_outcome(e);
                        o.extra.insert("stage".into(), json!("mktemp"));
                        return o;
                    }
                };
                if let Err(e) = write_value(tmp.as_file_mut(), name, val, pid, chunks, chunk) {
                    let mut o = err_outcome(e);
                    o.extra.insert("stage".into(), json!("write"));
                    return o;
                }
                let path = tmp.path().to_owned();
                apply_srcmode(&path, op);       // the application may have chmod'ed its temp file itself
                phase("lib");
                let r = if api == "set_tf" { c.set_temp_file(key, tmp) } else { c.put_temp_file(key, tmp) };
                phase("app");
                let mut o = from_unit(r);
                o.extra.insert("src_exists".into(), json!(path.symlink_metadata().is_ok()));
                o
            }
            _ => err_outcome(std::io::Error::new(std::io::ErrorKind::Other, "n/a")),
        },
        "ensure" => match h {
            Handle::Stack(c) => {
                let pop = op["populate"].as_str().unwrap_or("value").to_string();
                let popmode = op["popmode"].as_u64();
                let popchop = op["popchop"].as_u64();
                phase("lib");
                from_file(c.ensure(key, |dst| {
                    phase("cb");
                    let r = match pop.as_str() {
                        "notfound" => Err(std::io::Error::new(std::io::ErrorKind::NotFound, "populate: not found")),
                        "error" => Err(std::io::Error::new(std::io::ErrorKind::Other, "populate: failed")),
                        _ => write_value(dst, name, val, pid, chunks, chunk).and_then(|_| match popchop {
                            Some(n) => {
                                let len = dst.metadata()?.len();
                                dst.set_len(len.saturating_sub(n))
                            }
                            None => Ok(()),
                        }).and_then(|_| match popmode {
                            // a populate callback that chmods the file it was given
                            Some(m) => {
                                use std::os::unix::fs::PermissionsExt;
                                dst.set_permissions(std::fs::Permissions::from_mode(m as u32))
                            }
                            None => Ok(()),
                        }),
                    };
                    phase("lib");
                    r
                }))
            }
            _ => err_outcome(std::io::Error::new(std::io::ErrorKind::Other, "n/a")),
        },
        "gou" => match h {
            Handle::Stack(c) => {
                let pop = op["populate"].as_str().unwrap_or("value").to_string();
                let action = op["judge"].as_str().unwrap_or("accept").to_string();
                let consume = op["consume"].as_bool().unwrap_or(true);
                let popchop2 = op["popchop"].as_u64();
                let seen: Arc<Mutex<Option<Value>>> = Arc::new(Mutex::new(None));
                let seen2 = seen.clone();
                let oldseen: Arc<Mutex<Option<Value>>> = Arc::new(Mutex::new(None));
                let oldseen2 = oldseen.clone();
                phase("lib");
                let r = c.get_or_update(
                    key,
                    move |hit| {
                        phase("cb");
                        let (kind, f) = match hit {
                            CacheHit::Primary(f) => ("primary", f),
                            CacheHit::Secondary(f) => ("secondary", f),
                        };
                        let c = if consume { decode_file_rewinding(f, chunk) } else { json!({"kind": "unread"}) };
                        *seen2.lock().unwrap() = Some(json!({"hit": kind, "c": c}));
                        phase("lib");
                        match action.as_str() {
                            "promote" => CacheHitAction::Promote,
                            "replace" => CacheHitAction::Replace,
                            _ => CacheHitAction::Accept,
                        }
                    },
                    move |dst, old| {
                        phase("cb");
                        if let Some(mut o) = old {
                            // (consume = false: the callbacks look at nothing; the old file is just dropped here)
                            if consume {
                                let off = o.stream_position().unwrap_or(u64::MAX);
                                let c = decode_file_rewinding(&mut o, chunk);
                                *oldseen2.lock().unwrap() = Some(json!({"off": off, "c": c}));
                            }
                        }
                        let r = match pop.as_str() {
                            "notfound" => Err(std::io::Error::new(std::io::ErrorKind::NotFound, "populate: not found")),
                            "error" => Err(std::io::Error::new(std::io::ErrorKind::Other, "populate: failed")),
                            _ => write_value(dst, name, val, pid, chunks, chunk).and_then(|_| match popchop2 {
                                Some(n) => {
                                    let len = dst.metadata()?.len();
                                    dst.set_len(len.saturating_sub(n))
                                }
                                None => Ok(()),
                            }),
                        };
                        phase("lib");
                        r
                    },
                );
                let mut o = from_file(r);
                if let Some(s) = seen.lock().unwrap().take() {
                    o.extra.insert("judge".into(), s);
                }
                if let Some(s) = oldseen.lock().unwrap().take() {
                    o.extra.insert("old".into(), s);
                }
                o
            }
            _ => err_outcome(std::io::Error::new(std::io::ErrorKind::Other, "n/a")),
        },
        "prune" => {
            let dir = PathBuf::from(op["dir"].as_str().unwrap());
            let cap = usize_of(&op["cap"], 0);
            phase("lib");
            match kismet_cache::raw_cache::prune(dir, cap) {
                Ok((est, del)) => {
                    let mut o = Outcome { ok: true, res: "unit".into(), ..Default::default() };
                    o.extra.insert("estimate".into(), json!(est));
                    o.extra.insert("deleted".into(), json!(del));
                    o
                }
                Err(e) => err_outcome(e),
            }
        }
        other => panic!("unknown api {}", other),
    }
}

/// The application may hand over a source file with any permission bits ("srcmode").
fn apply_srcmode(path: &Path, op: &Value) {
    if let Some(m) = op["srcmode"].as_u64() {
        use std::os::unix::fs::PermissionsExt;
        let _ = std::fs::set_permissions(path, std::fs::Permissions::from_mode(m as u32));
    }
}

/// World-building operations: not library calls; done with plain std::fs.
fn run_world_op(op: &Value, ctx: &Ctx) -> Outcome {
    let api = op["api"].as_str().unwrap_or("");
    let r: std::io::Result<()> = (|| match api {
        "mkdir" => std::fs::create_dir_all(op["path"].as_str().unwrap()),
        "mkfile" => {
            // {"path":..., "key","val","chunks","w", "raw":"text", "mode":0o444, "mt":[s,ns], "at":[s,ns]}
            // "name_hex": extra raw bytes appended to the file name (names that are not valid UTF-8)
            let pbuf: PathBuf = match op["name_hex"].as_str() {
                Some(hx) => {
                    use std::os::unix::ffi::OsStringExt;
                    let mut b = op["path"].as_str().unwrap().as_bytes().to_vec();
                    let raw: Vec<u8> = (0..hx.len() / 2).filter_map(|i| u8::from_str_radix(&hx[2 * i..2 * i + 2], 16).ok()).collect();
                    b.extend_from_slice(&raw);
                    PathBuf::from(std::ffi::OsString::from_vec(b))
                }
                None => PathBuf::from(op["path"].as_str().unwrap()),
            };
            let path = pbuf.as_path();
            if let Some(parent) = path.parent() {
                std::fs::create_dir_all(parent)?;
            }
            {
                let mut f = File::create(path)?;
                if let Some(raw) = op["raw"].as_str() {
                    f.write_all(raw.as_bytes())?;
                } else {
                    let key = op["key"].as_str().unwrap_or("k");
                    let val = op["val"].as_str().unwrap_or("v");
                    let chunks = op["chunks"].as_u64().unwrap_or(1) as u32;
                    let w = op["w"].as_u64().unwrap_or(0) as u32;
                    write_value(&mut f, key, val, w, chunks, ctx.chunk)?;
                }
                // "chop": the file is that many bytes short of the value (a copy that lost its tail)
                if let Some(n) = op["chop"].as_u64() {
                    let len = f.metadata()?.len();
                    f.set_len(len.saturating_sub(n))?;
                }
            }
            if let Some(mode) = op["mode"].as_u64() {
                use std::os::unix::fs::PermissionsExt;
                std::fs::set_permissions(path, std::fs::Permissions::from_mode(mode as u32))?;
            }
            stamp(path, op)
        }
        "mkfiles" => {
            // {"dir":..., "count":N, "prefix":"e"}: N small key-named value files (bulk population)
            let dir = Path::new(op["dir"].as_str().unwrap());
            std::fs::create_dir_all(dir)?;
            let n = op["count"].as_u64().unwrap_or(0);
            let prefix = op["prefix"].as_str().unwrap_or("e");
            for i in 0..n {
                let name = format!("{}{}", prefix, i);
                let p = dir.join(&name);
                {
                    let mut f = File::create(&p)?;
                    write_value(&mut f, &name, "bulk", 0, 1, ctx.chunk)?;
                }
                use std::os::unix::fs::PermissionsExt;
                std::fs::set_permissions(&p, std::fs::Permissions::from_mode(0o444))?;
            }
            Ok(())
        }
        "symlink" => {
            // {"path": link name, "target": what it points to (relative to the link's directory, or absolute)}
            let path = Path::new(op["path"].as_str().unwrap());
            if let Some(parent) = path.parent() {
                std::fs::create_dir_all(parent)?;
            }
            std::os::unix::fs::symlink(op["target"].as_str().unwrap(), path)
        }
        "utimes" => stamp(Path::new(op["path"].as_str().unwrap()), op),
        "unlink" => std::fs::remove_file(op["path"].as_str().unwrap()),
        "chmod" => {
            use std::os::unix::fs::PermissionsExt;
            std::fs::set_permissions(
                op["path"].as_str().unwrap(),
                std::fs::Permissions::from_mode(op["mode"].as_u64().unwrap_or(0o755) as u32),
            )
        }
        "sleep_ms" => {
            std::thread::sleep(std::time::Duration::from_millis(op["ms"].as_u64().unwrap_or(1)));
            Ok(())
        }
        other => panic!("unknown world op {}", other),
    })();
    from_unit(r)
}

/// Applies explicit stamps: absolute [sec,nsec] pairs ("mt"/"at"), or offsets
/// in seconds relative to now ("mt_ago"/"at_ago", may be fractional).
fn stamp(path: &Path, op: &Value) -> std::io::Result<()> {
    use filetime::FileTime;
    let now = FileTime::now();
    let pick = |abs: &Value, ago: &Value| -> Option<FileTime> {
        if let Some(a) = abs.as_array() {
            Some(FileTime::from_unix_time(a[0].as_i64().unwrap_or(0), a[1].as_u64().unwrap_or(0) as u32))
        } else if let Some(s) = ago.as_f64() {
            let total = now.unix_seconds() as f64 + now.nanoseconds() as f64 * 1e-9 - s;
            let sec = total.floor();
            let ns = ((total - sec) * 1e9) as u32;
            Some(FileTime::from_unix_time(sec as i64, ns.min(999_999_999)))
        } else {
            None
        }
    };
    let mt = pick(&op["mt"], &op["mt_ago"]);
    let at = pick(&op["at"], &op["at_ago"]);
    if mt.is_none() && at.is_none() {
        return Ok(());
    }
    // filetime's path API opens the file; use utimensat on the path directly so
    // that read-only files owned by us can be stamped.
    let c = {
        use std::os::unix::ffi::OsStrExt;
        std::ffi::CString::new(path.as_os_str().as_bytes()).unwrap()
    };
    let to_ts = |t: Option<FileTime>| match t {
        Some(t) => libc::timespec { tv_sec: t.unix_seconds(), tv_nsec: t.nanoseconds() as i64 },
        None => libc::timespec { tv_sec: 0, tv_nsec: libc::UTIME_OMIT },
    };
    let ts = [to_ts(at), to_ts(mt)];
    let rc = unsafe { libc::utimensat(libc::AT_FDCWD, c.as_ptr(), ts.as_ptr(), 0) };
    if rc < 0 {
        Err(std::io::Error::last_os_error())
    } else {
        Ok(())
    }
}

fn is_world_op(api: &str) -> bool {
    matches!(api, "mkdir" | "mkfile" | "mkfiles" | "utimes" | "unlink" | "chmod" | "sleep_ms" | "symlink")
}

fn observe_handle(f: &mut File, chunk: usize) -> Value {
    let fd = f.as_raw_fd();
    let fl = unsafe { libc::fcntl(fd, libc::F_GETFL) };
    let acc = match fl & libc::O_ACCMODE {
        libc::O_RDONLY => "r",
        libc::O_WRONLY => "w",
        _ => "rw",
    };
    let off = unsafe { libc::lseek(fd, 0, libc::SEEK_CUR) };
    let c = decode_file_rewinding(f, chunk);
    // Identity of the file behind the handle, for the monitors.
    let mut st: libc::stat = unsafe { std::mem::zeroed() };
    unsafe { libc::fstat(fd, &mut st) };
    json!({"acc": acc, "off": off, "c": c, "mode": st.st_mode & 0o7777, "nlink": st.st_nlink, "fd": fd})
}

fn main_traced(spec: Value) {
    let pid = spec["pid"].as_u64().unwrap_or(1) as u32;
    let chunk = spec["chunk"].as_u64().unwrap_or(4096) as usize;
    if let Some(um) = spec["umask"].as_u64() {
        unsafe { libc::umask(um as libc::mode_t) };
    }
    if let Some(uid) = spec["uid"].as_u64() {
        if uid != 0 && unsafe { libc::getuid() } == 0 {
            unsafe {
                libc::setgroups(0, std::ptr::null());
                if libc::setgid(uid as libc::gid_t) != 0 || libc::setuid(uid as libc::uid_t) != 0 {
                    eprintln!("kv-actor: cannot drop privileges");
                    std::process::exit(3);
                }
            }
        }
    }
    std::panic::set_hook(Box::new(|_| {}));
    let ctx = Ctx { chunk, pid, checklog: Arc::new(Mutex::new(Vec::new())), top: spec["top"].as_str().unwrap_or("/nonexistent").to_string() };
    if let Some(d) = spec["draws"].as_array() {
        kismet_cache::verif::script_u64(d.iter().map(u64_of));
    }
    if !spec["draw_default"].is_null() {
        kismet_cache::verif::script_u64_default(Some(u64_of(&spec["draw_default"])));
    }
    if let Some(d) = spec["shard_script"].as_array() {
        kismet_cache::verif::script_shards(d.iter().map(|v| u64_of(v) as usize));
    }
    let handles: Vec<Handle> = match spec["handles"].as_array() {
        Some(hs) => hs.iter().map(|h| build_handle(h, &ctx)).collect(),
        None => vec![build_handle(&spec["cache"], &ctx)],
    };
    emit(&json!({"e": "start", "p": pid}));
    let prog = spec["prog"].as_array().cloned().unwrap_or_default();
    for (i, op) in prog.iter().enumerate() {
        let api = op["api"].as_str().unwrap_or("").to_string();
        let mut callrec = op.clone();
        callrec["e"] = json!("call");
        callrec["p"] = json!(pid);
        callrec["opi"] = json!(i + 1);
        callrec["world"] = json!(is_world_op(&api));
        // the kind of handle this operation goes through ("plain" | "sharded" | "stack" | "ro")
        let hspec = if op["cache"].is_object() {
            &op["cache"]
        } else if let Some(hs) = spec["handles"].as_array() {
            &hs[(op["h"].as_u64().unwrap_or(0) as usize).min(hs.len().saturating_sub(1))]
        } else {
            &spec["cache"]
        };
        callrec["hk"] = hspec["kind"].clone();
        emit(&callrec);
        if let Some(d) = op["draws"].as_array() {
            kismet_cache::verif::script_u64(d.iter().map(u64_of));
        }
        if let Some(d) = op["shard_script"].as_array() {
            kismet_cache::verif::script_shards(d.iter().map(|v| u64_of(v) as usize));
        }
        if is_world_op(&api) {
            phase("world");
            let out = run_world_op(op, &ctx);
            phase("app");
            emit(&json!({"e": "ret", "p": pid, "opi": i + 1, "api": api, "ok": out.ok, "kind": out.kind,
                         "errno": out.errno, "panic": false, "res": out.res}));
            continue;
        }
        phase("prep");
        let fresh;
        let h: &Handle = if op["cache"].is_object() {
            fresh = build_handle(&op["cache"], &ctx);
            &fresh
        } else {
            &handles[op["h"].as_u64().unwrap_or(0) as usize]
        };
        ctx.checklog.lock().unwrap().clear();
        let result = catch_unwind(AssertUnwindSafe(|| run_op(h, op, &ctx)));
        phase("app");
        let (mut out, panicked) = match result {
            Ok(o) => (o, false),
            Err(p) => {
                let msg = if let Some(s) = p.downcast_ref::<&str>() {
                    s.to_string()
                } else if let Some(s) = p.downcast_ref::<String>() {
                    s.clone()
                } else {
                    "?".to_string()
                };
                let mut o = Outcome { ok: false, res: "panic".into(), ..Default::default() };
                o.extra.insert("panic_msg".into(), json!(msg));
                (o, true)
            }
        };
        let mut rec = json!({"e": "ret", "p": pid, "opi": i + 1, "api": api, "ok": out.ok, "panic": panicked,
                             "res": out.res});
        if let Some(k) = &out.kind {
            rec["kind"] = json!(k);
        }
        if let Some(e) = out.errno {
            rec["errno"] = json!(e);
        }
        for (k, v) in out.extra.iter() {
            rec[k] = v.clone();
        }
        let checks = ctx.checklog.lock().unwrap().clone();
        if !checks.is_empty() {
            rec["checks"] = Value::Array(checks);
        }
        emit(&rec);
        // What a user can observe on the returned handle.
        let mut obs = json!({"e": "obs", "p": pid, "opi": i + 1, "api": api});
        if let Some(f) = out.file.as_mut() {
            obs["handle"] = observe_handle(f, chunk);
        }
        // Descriptors of this process that are still open on something under
        // the world (cross-check for the tracer's accounting).
        if let Some(top) = spec["top"].as_str() {
            let held = out.file.as_ref().map(|f| f.as_raw_fd());
            obs["openfds"] = json!(count_open_under(top, held));
        }
        emit(&obs);
        drop(out.file.take());
    }
    emit(&json!({"e": "end", "p": pid}));
}

/// Number of descriptors (other than `except`) that point below `top`.
fn count_open_under(top: &str, except: Option<i32>) -> usize {
    let mut n = 0;
    if let Ok(rd) = std::fs::read_dir("/proc/self/fd") {
        for e in rd.flatten() {
            let fd: i32 = match e.file_name().to_string_lossy().parse() {
                Ok(x) => x,
                Err(_) => continue,
            };
            if Some(fd) == except || fd == REC_FD {
                continue;
            }
            if let Ok(t) = std::fs::read_link(e.path()) {
                if t.to_string_lossy().starts_with(top) {
                    n += 1;
                }
            }
        }
    }
    n
}

// ---------------------------------------------------------------------------
// Pure-function mode (no tracer): second_chance planner, trigger arithmetic,
// shard mapping through the public API is observed elsewhere.

struct Ent {
    id: usize,
    rank: u64,
    acc: bool,
}

impl kismet_cache::second_chance::Entry for Ent {
    type Rank = u64;
    fn rank(&self) -> u64 {
        self.rank
    }
    fn accessed(&self) -> bool {
        self.acc
    }
}

fn pure_case(case: &Value) -> Value {
    match case["fn"].as_str().unwrap_or("") {
        "plan" => {
            // {"fn":"plan","ents":[[rank,acc],...],"caps":[...]}
            let ents: Vec<(u64, bool)> = case["ents"]
                .as_array()
                .unwrap()
                .iter()
                .map(|e| (u64_of(&e[0]), e[1].as_u64().unwrap_or(0) != 0 || e[1].as_bool().unwrap_or(false)))
                .collect();
            let mut outs = Vec::new();
            for cap in case["caps"].as_array().unwrap() {
                let capn = usize_of(cap, 0);
                let input: Vec<Ent> =
                    ents.iter().enumerate().map(|(i, (r, a))| Ent { id: i + 1, rank: *r, acc: *a }).collect();
                let r = catch_unwind(AssertUnwindSafe(|| kismet_cache::second_chance::Update::new(input, capn)));
                match r {
                    Ok(u) => outs.push(json!({"cap": cap, "panic": false,
                        "evict": u.to_evict.iter().map(|e| e.id).collect::<Vec<_>>(),
                        "back": u.to_move_back.iter().map(|e| e.id).collect::<Vec<_>>()})),
                    Err(_) => outs.push(json!({"cap": cap, "panic": true, "evict": [], "back": []})),
                }
            }
            json!({"fn": "plan", "id": case["id"], "ents": case["ents"], "outs": outs})
        }
        "trigger" => {
            // {"fn":"trigger","period":P,"draws":[...],"events":N}: fresh thread, scripted draws.
            let period = u64_of(&case["period"]);
            let draws: Vec<u64> = case["draws"].as_array().unwrap().iter().map(u64_of).collect();
            let dflt = if case["draw_default"].is_null() { None } else { Some(u64_of(&case["draw_default"])) };
            let n = case["events"].as_u64().unwrap_or(0);
            let r = std::thread::spawn(move || {
                std::panic::set_hook(Box::new(|_| {}));
                kismet_cache::verif::script_u64(draws);
                kismet_cache::verif::script_u64_default(dflt);
                catch_unwind(|| (0..n).map(|_| kismet_cache::verif::trigger_event(period)).collect::<Vec<bool>>())
            })
            .join()
            .unwrap();
            match r {
                Ok(f) => json!({"fn": "trigger", "id": case["id"], "period": case["period"], "draws": case["draws"],
                    "draw_default": case["draw_default"], "panic": false,
                    "fires": f.iter().map(|b| *b as u8).collect::<Vec<u8>>()}),
                Err(_) => json!({"fn": "trigger", "id": case["id"], "period": case["period"], "panic": true, "fires": []}),
            }
        }
        other => json!({"fn": other, "error": "unknown"}),
    }
}

fn main_pure(cases: &str, out: &str) {
    let input = std::fs::read_to_string(cases).expect("read cases");
    let mut o = std::io::BufWriter::new(File::create(out).expect("create out"));
    std::panic::set_hook(Box::new(|_| {}));
    for line in input.lines() {
        if line.trim().is_empty() {
            continue;
        }
        let case: Value = serde_json::from_str(line).expect("case json");
        let r = pure_case(&case);
        writeln!(o, "{}", r).unwrap();
    }
}

fn main() {
    let args: Vec<String> = std::env::args().collect();
    if args.len() >= 4 && args[1] == "--pure" {
        main_pure(&args[2], &args[3]);
        return;
    }
    if args.len() < 2 {
        eprintln!("usage: kv-actor <spec.json|json> | --pure cases out");
        std::process::exit(2);
    }
    let text = if args[1].trim_start().starts_with('{') {
        args[1].clone()
    } else {
        std::fs::read_to_string(&args[1]).expect("read spec")
    };
    let spec: Value = serde_json::from_str(&text).expect("spec json");
    // Rewind helper is unused on some paths.
    let _ = SeekFrom::Start(0);
    main_traced(spec);
}
